# C02: variable values equal their mathematical definition and respect its symmetries
from cvsym import checklib as CL
FNS = ['h_c02_def_distances', 'h_c02_def_shape', 'h_c02_def_angle', 'h_c02_def_coordnum', 'h_c02_dihedral', 'h_c02_permutation_duplicates', 'h_c02_translation', 'h_c02_rotation', 'h_c02_lattice']
def groups(tier):
    b = {'atoms': '6 proxy atoms, distinct masses and charges, groups of 1-3 atoms', 'coordinates': 'all free (dihedral: bond 2-3 on a rational slice)', 'rotations': 'about the z axis, rational parametrisation',
         'cell': 'orthorhombic 20 x 24 x 30, group centres closer than half an edge, lattice shifts -2..2 per dimension', 'group spellings': 'permuted order, duplicates, duplicates via atomNumbersRange'}
    return [CL.Group('C02_values.cpp', FNS, setup=['h_c02_setup'], bounds=b, path_time=280, total_time=900)]
MANIFEST = {
 'level_text': 'Bounded symbolic model checking through variables defined by configuration text, all coordinates symbolic: the value computed by the real calc_value() code equals an independent closed form written in the harness from the reference manual (distance, distanceZ, distanceXY, distanceVec with mass-weighted centres; gyration, inertia, dipoleMagnitude; angle; dihedral; coordNum); relational queries on two executions show invariance under translation by an arbitrary vector, rotation about an axis, permutation and duplicate listing of atoms in a group (real add_atom de-duplication) and translation of a group by lattice vectors under minimum-image boundaries.',
 'level_note': 'exact-real reading; acos/atan2 as free symbols; NOT claimed: the optimal-rotation clause (least-squares optimum, quaternion sign) and every rotation-dependent variable - the rotation comes from an iterative Jacobi eigen-solver whose trip count is data dependent and which cannot be executed exactly; general (3-parameter) rotations; triclinic cells.',
 'technique': 'symbolic execution of LLVM IR + SMT (z3): equality with independent closed forms and relational (two-execution) queries in the exact-real normal form',
 'design_ref': 'DESIGN.md 5/C02'}
def run():
    CL.main('C02', groups, '', ['double is read as an exact real number', 'every executed division has a non-zero divisor'], ['optimal rotation (Jacobi eigen-solver) and rotation-dependent variables', 'rotations about arbitrary axes', 'triclinic cells'], MANIFEST['technique'])
