# C13: defining then deleting objects is the identity; dependencies stay consistent
from cvsym import checklib as CL
def groups(tier):
    b = {'objects': '3 variables (distance, extended-Lagrangian distance sharing an atom with the first, distanceVec) and 6 biases (harmonic on one / two variables, harmonic with TI samples needing total forces, harmonicWalls, harmonic on the vector variable, a second harmonic) defined from configuration text',
         'operations': '12 operations (delete each variable, delete each bias, define two further biases, nothing); every sequence of length 1 (quick) and of length 1 and 2 (thorough), from the state with everything defined',
         'coordinates': 'arbitrary reals for the final step'}
    fns = ['h_c13_seq1'] if tier == 'quick' else ['h_c13_seq1', 'h_c13_seq2']
    return [CL.Group('C13_deps.cpp', [f], setup=['h_c13_setup'], bounds=b, max_paths=600, path_time=280, total_time=2400, diff=False) for f in fns]
MANIFEST = {
 'level_text': 'Bounded symbolic model checking of the real definition / deletion code (configuration parsing, destructors of colvar, cvc, atom group, bias, colvardeps::enable / disable / free_children_deps, colvarmodule::reset): for every sequence of operations within the bound, after every operation the whole object graph is walked and the dependency invariants are asserted for every object (every enabled feature has its requires_self enabled, one of each alternative set enabled, no excluded feature enabled, the required features enabled in all children of active objects, reference counts non-negative, parent and child links symmetric, variables list only live biases and biases only live variables) and the engine-side reference count of every atom slot equals the number of live atom objects using it; then a step is taken at arbitrary real coordinates, the module is reset (must release every atom) and only the survivors are defined afresh: values, bias energies, total energy and the force on every atom are proved equal between the two histories. Use of a deleted object is caught by the freed-memory monitor during the operations and the step.',
 'level_note': 'sequences of length 1 (quick) / 2 (thorough) over 12 operations from one initial state; no steps between operations, so history-dependent biases (ABF, metadynamics) and multiple-time-step sleeping are outside; scripted / custom-function variables outside. One known finding (a variable left without any bias becomes inactive) is recorded in known_findings.json.',
 'technique': 'symbolic execution of LLVM IR through the public API + SMT (z3): enumeration of operation sequences with symbolic coordinates, object-graph invariants and freed-memory monitor',
 'design_ref': 'DESIGN.md 5/C13'}
def run():
    CL.main('C13', groups, '', ['operator new never fails'], ['steps between operations', 'history-dependent biases', 'sequences longer than 2'], MANIFEST['technique'])
