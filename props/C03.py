# C03: a run resumed from a saved state is indistinguishable from an uninterrupted run
from cvsym import checklib as CL
def _zero(I, a): return 0
STUBS = [('_ZN11colvarproxy11end_of_stepEv', _zero), ('_ZN14colvarbias_abf11calc_energyE', _zero)]
FNS = ['h_c03_meta_offgrid', 'h_c03_restraints_moving', 'h_c03_restraints_staged', 'h_c03_extended', 'h_c03_abf', 'h_c03_histogram', 'h_c03_meta', 'h_c03_meta_keephills']
def groups(tier):
    b = {'scenario': 'uninterrupted run of steps 0..N that writes its state at step K on the way (text and binary, enumerated) against: fresh proxy and module with the same configuration, state loaded, steps K..N; N = 2..4, every K in the stated set (including 0 and N); arbitrary real coordinates and total forces at every step',
         'objects': 'harmonic fixed / moving centres with accumulated work / linear; staged moving centres / changing force constant with accumulated work; extended-Lagrangian variable with a harmonic bias (running simulation); ABF / histogram (1 variable, 4 bins, the bin visited at each step enumerated among 2; ABF N = 2 quick, 3 thorough); histogram; metadynamics with explicit hills (useGrids off); metadynamics with grids whose last step is an excursion beyond the upper boundary'}
    if tier != 'quick': FNS_ = FNS + ['h_c03_abf_long']
    else: FNS_ = FNS
    return [CL.Group('C03_restart.cpp', [f], setup=['h_c03_setup'], bounds=b, stubs=STUBS, max_paths=300, path_time=280, total_time=1500, ext={'div_zero': 'fork'}, diff=False) for f in FNS_]
MANIFEST = {
 'level_text': 'Bounded symbolic model checking of the real state writers and readers (colvarmodule::write_state / read_state in text and binary form, get/set_state_params and write/read_state_data of every object involved) inside complete runs through colvarmodule::calc(): with arbitrary real coordinates and total forces at every step, the uninterrupted run and the run stopped at step K, saved, reloaded into a fresh proxy + module and continued are proved to end with equal variable values, bias energies, total energy, atom forces and an equal final state text (word by word; numbers through in-band tokens), which covers the accumulated data (grids, counts, hills, centres, force constants, accumulated work, extended coordinate and velocity); for the text format the state saved immediately after loading is proved equal to the state that was loaded.',
 'level_note': 'N <= 4 steps, K enumerated; exact-real reading (the 14-digit rounding of the text format is outside: tokens carry the exact value); colvarbias_abf::calc_energy and colvarproxy::end_of_step are stubbed. Outside: eABF/CZAR, well-tempered / multiple-walker metadynamics, OPES, ABMD, ALB, state files (the stream-level API is used), excursions outside the grids.',
 'technique': 'symbolic execution of LLVM IR through the public API + SMT (z3): two complete symbolic runs compared, state text compared word by word with in-band tokens',
 'design_ref': 'DESIGN.md 5/C03'}
def run():
    CL.main('C03', groups, '', ['operator new never fails', 'the engine zeroes the applied forces at the start of every step'], ['rounding of the printed digits', 'state files on disk', 'biases not listed'], MANIFEST['technique'])
