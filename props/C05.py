# C05: the metadynamics bias is the sum of the hills deposited on schedule
from cvsym import checklib as CL
FNS = ['h_c05_nogrid', 'h_c05_welltempered', 'h_c05_periodic', 'h_c05_grid', 'h_c05_offgrid']
def groups(tier):
    b = {'variables': 'one scalar variable (distance, 4 bins of 0.5 between 1 and 3, hard lower boundary) or one periodic scalar (period 360)', 'hills': 'one earlier hill with arbitrary centre and height + the hill deposited now',
         'steps': 'step and run start: mathematical integers in [0, 40]; newHillFrequency 5', 'gaussians': 'exp is a free positive symbol; the documented 23.0 cut-off of the exponent is part of the specification'}
    return [CL.Group('C05_meta.cpp', FNS, setup=['h_c05_setup'], bounds=b, max_paths=600)]
MANIFEST = {
 'level_text': 'Bounded symbolic model checking of the real colvarbias_meta::update() (update_bias, add_hill, calc_hills, calc_hills_force, project_hills, update_grid_data, calc_energy, calc_forces) on biases built from configuration text: a hill is appended iff the (symbolic) step is a multiple of newHillFrequency at an eligible step, with centre = current value, configured width, height hillWeight (x exp(-V/kT) for well-tempered); without grids energy and force equal the analytic sum over the list (shortest image for a periodic variable); with grids every cell grows by the analytic value/gradient of the new hill at the bin centre and energy/force are the tabulated values of the current bin; beyond the grid the hills near the boundary act analytically at the actual position; keepHills keeps the list.',
 'level_note': 'exact-real reading; exp as a free positive symbol with derivative rule; Gaussian cut-off 23.0 as documented. Outside: more than one variable, expandBoundaries / grid expansion, rebinning, multiple walkers (C14), ebMeta, gridsUpdateFrequency different from newHillFrequency, hills lists longer than 2.',
 'technique': 'symbolic execution of LLVM IR + SMT (z3): inductive step with symbolic step number and hill list; exp as uninterpreted positive symbol',
 'design_ref': 'DESIGN.md 5/C05'}
def run():
    CL.main('C05', groups, '', ['double is read as an exact real number', 'exp is a free positive symbol (same argument, same symbol)'], ['2-3 variables', 'grid expansion and rebinning', 'ebMeta', 'gridsUpdateFrequency != newHillFrequency'], MANIFEST['technique'])
