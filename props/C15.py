# C15: every sample lands in exactly one grid bin; grid files round-trip
from cvsym import checklib as CL
FNS = ['h_c15_hist1d', 'h_c15_hist_custom', 'h_c15_hist_coarser', 'h_c15_hist_finer', 'h_c15_hist2d', 'h_c15_index', 'h_c15_address', 'h_c15_roundtrip']
def groups(tier):
    b = {'grids': '1-D 4 bins, custom 2 bins, custom width only (coarser: 2 bins, finer: 8 bins), 2-D 3 x 4 with one periodic dimension; gradient grid 3 x 4 x 2 for file round trips', 'values': 'all real values in (-1000, 1000)',
         'pre-state': 'arbitrary real cell contents', 'schedules': 'later step of a run / first step of a run / step 0'}
    return [CL.Group('C15_grid.cpp', FNS, setup=['h_c15_setup'], bounds=b)]
MANIFEST = {
 'level_text': 'Bounded symbolic model checking of the real grid code through objects built from configuration text: one inductive step of colvarbias_histogram::update() from an arbitrary pre-state (every cell compared: exactly the containing cell grows by one at an eligible step, none otherwise), value_to_bin_scalar / index_ok / address / incr / wrap / value_to_bin_scalar_bound for all values and indices, and write/read round trips (multicolumn, restart, raw) of a multiplicity-2 grid through the real iostream code with symbolic data.',
 'level_note': 'exact-real reading of double; bin index = floor as a mathematical integer; decimal rendering/parsing of symbolic numbers travels as in-band tokens (structure of the files is checked, digits are not); vector variables gathered into one histogram are not reachable through the histogram bias in this build; OpenDX output outside.',
 'technique': 'symbolic execution of LLVM IR + SMT (z3): inductive step from a symbolic pre-state, mixed integer-real arithmetic for floor/bins',
 'design_ref': 'DESIGN.md 5/C15'}
def run():
    CL.main('C15', groups, '', ['double is read as an exact real number', 'values bounded by 1000 in magnitude (bin index fits an int)', 'symbolic numbers in text are in-band tokens'],
            ['OpenDX', 'init_from_boundaries with symbolic boundaries', 'gatherVectorColvars weights', '3-D grids'], MANIFEST['technique'])
