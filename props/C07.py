# C07: total-force measurement is the inverse of force application
import os
from cvsym import checklib as CL
CASES = ['distance', 'distance_onesite', 'distancez', 'distancexy', 'gyration', 'combo', 'angle', 'angle_onesite', 'lagged', 'lagged_sub', 'rotframe']
THOROUGH = ['dihedral']
def groups(tier):
    sel = os.environ.get('VERIF_CASES'); cases = sel.split(',') if sel else (CASES + (THOROUGH if tier == 'thorough' else []))
    b = {'atoms': '4-5 proxy atoms with distinct masses, one atom outside the variable groups', 'forces': 'arbitrary atomic force fields on all atoms', 'temperature': '300 K (kT symbolic-free constant)',
         'geometry': 'all coordinates free (distance-type), rational slices for angle and dihedral', 'timing': 'same-step proxy for all components; one-step-late proxy for distance (with and without subtractAppliedForce)'}
    return [CL.Group('C07_totalforce.cpp', ['h_c07_' + c], setup=['h_c07_%s_setup' % c], bounds=b, path_time=200 if tier == 'quick' else 1500, total_time=600 if tier == 'quick' else 3000) for c in cases]
MANIFEST = {
 'level_text': 'Bounded symbolic model checking through the public API (variable + harmonic bias from configuration text, proxy subclass fixing the force-timing convention): the atomic forces Colvars applies for the variable force f are fed back as total forces and the real calc_force_invgrads / collect_cvc_total_forces / collect_cvc_Jacobians / calc_colvar_properties return f + Jacobian term; the measurement is linear in arbitrary atomic forces (ft(T + a U) - J = (ft(T) - J) + a (ft(U) - J)), ignores atoms outside the groups, the Jacobian terms equal kT*2/r, 0, kT/r, 0 for distance, distanceZ, distanceXY, dihedral; in the one-step-late convention the reported force refers to the previous step (its geometry, its applied force) and subtractAppliedForce removes exactly the force applied then.',
 'level_note': 'exact-real reading; rmsd, eigenvector and the alchemical component are outside (the optimal rotation is not executable exactly); for rotated frames only the frame change itself is checked, with the fitted quaternion replaced by an arbitrary unit quaternion; hideJacobian combinations outside; angle and dihedral on rational slices.',
 'technique': 'symbolic execution of LLVM IR through the public API + SMT (z3): relational queries over several executions (exact-real normal form)',
 'design_ref': 'DESIGN.md 5/C07'}
def run():
    CL.main('C07', groups, '', ['double is read as an exact real number', 'every executed division has a non-zero divisor'], ['rmsd / eigenvector / rotated frames', 'alchemical lambda', 'hideJacobian'], MANIFEST['technique'])
