# C17: extended-Lagrangian coordinates follow the documented integrator
from cvsym import checklib as CL
FNS = ['h_c17_step', 'h_c17_langevin', 'h_c17_langevin_mts', 'h_c17_params', 'h_c17_reflect', 'h_c17_repeat']
def groups(tier):
    b = {'state': 'arbitrary x, x_ext, v_ext, bias forces (on the extended coordinate and bypassing it)', 'parameters': 'arbitrary positive mass, force constant, time step; friction and noise amplitude arbitrary; Gaussian variate symbolic (controlled random source)',
         'time-step factor': '1 and 2', 'boundaries': 'reflecting at 1 and 6, start inside'}
    return [CL.Group('C17_extlag.cpp', FNS, setup=['h_c17_setup'], bounds=b)]
MANIFEST = {
 'level_text': 'Bounded symbolic model checking of the real colvar::update_forces_energy / update_extended_Lagrangian / calc_colvar_properties / end_of_step on variables built from configuration text, from an arbitrary state and arbitrary positive parameters: the post-state equals the documented BAOA update written in the harness (kicks, kinetic and potential energy at time t, drifts, O step with a symbolic Gaussian variate, slow time step for timeStepFactor 2); without friction the one-step map has unit Jacobian determinant (derivatives through the executed code); forces are routed as documented (extended coordinate: bias/tsf + spring; atoms: spring x tsf + bypassing biases); with reflecting boundaries the coordinate is inside unless the error is raised; repeating a step reverts and re-integrates to the same state; mass, force constant, friction and noise amplitude follow the configured fluctuation / time constant / damping.',
 'level_note': 'exact-real reading; exp as a free positive symbol; pi identified with the literal PI. Long-time energy drift beyond one-step symplecticity, statistics with friction, external (alchemical) variables, periodic extended variables outside.',
 'technique': 'symbolic execution of LLVM IR + SMT (z3): one integrator step from a symbolic state, forward-mode AD for the phase-space Jacobian',
 'design_ref': 'DESIGN.md 5/C17'}
def run():
    CL.main('C17', groups, '', ['double is read as an exact real number', 'exp is a free positive symbol'], ['external (alchemical) extended variables', 'periodic extended variables', 'multi-step energy drift'], MANIFEST['technique'])
