# C01: applied atomic forces are the exact negative gradient of the reported energy
import os
from cvsym import checklib as CL
CASES = ['distance', 'distancez', 'distancez_ref2', 'distancexy', 'distancexy_ref2', 'distanceinv', 'distancevec', 'distancevec_nopbc', 'distancedir', 'distancepairs', 'cartesian',
         'gyration', 'inertia', 'inertiaz', 'dipolemagnitude', 'polartheta', 'polarphi', 'angle', 'dihedral', 'dipoleangle',
         'coordnum', 'coordnum_aniso', 'selfcoordnum', 'hbond', 'groupcoord', 'lincomb', 'polycomb', 'veccomb', 'dummy', 'center_ref', 'center_fitgroup']
BCASES = ['walls_both', 'walls_upper', 'linear', 'harmonic2', 'two_biases', 'abmd', 'abmd_decreasing', 'histrestraint', 'meta_nogrid']
def groups(tier):
    sel = os.environ.get('VERIF_CASES')
    cases = [c for c in (sel.split(',') if sel else CASES) if c in CASES]
    bcases = [c for c in (sel.split(',') if sel else BCASES) if c in BCASES]
    b = {'atoms': '3-6 proxy atoms with distinct masses and charges, groups of 1-3 atoms', 'geometry': 'all coordinates free except the stated slices of angle / dihedral',
         'time-step factor': 1}
    return [CL.Group('C01_comp.cpp', ['h_c01_' + c], setup=['h_c01_%s_setup' % c], bounds=b, ext={'params': {'dihedral_slices': 2 if tier == 'quick' else 3}}, path_time=200 if tier == 'quick' else 1200, total_time=600 if tier == 'quick' else 2400) for c in cases] + \
           [CL.Group('C01_bias.cpp', ['h_c01b_' + c], setup=['h_c01b_%s_setup' % c], bounds=b, path_time=200, total_time=600) for c in bcases]
MANIFEST = {
 'level_text': 'Bounded symbolic model checking through the public API: each case builds a variable and a bias from configuration text with the real read_config_string(), makes all atomic coordinates symbolic and runs the real calc_colvars / calc_biases / update_colvar_forces; for every proxy atom and Cartesian component the query "force != -d(total_bias_energy)/d(coordinate)" is unsat on every path. The derivative is obtained by forward-mode differentiation through the executed IR of the energy code. 31 component / combination / atom-group cases and 9 bias cases (harmonic, harmonicWalls, linear, histogramRestraint, ABMD, metadynamics without grids, several biases at once).',
 'level_note': 'double read as exact real; pi identified with the literal PI; sqrt via canonical square-root generators, exp/acos/atan2/pow as free symbols with derivative rules; every executed division has a non-zero divisor (singular geometries excluded). Outside: rotation-dependent components (rmsd, orientation*, tilt, spinAngle, euler*, eigenvector, rotateToReference), path/NN/map components, OPES, enableFitGradients off (documented omission), dihedral in general position (quick tier uses two slices), distanceInv exponent > 2.',
 'technique': 'symbolic execution of LLVM IR through the public API + SMT (z3): exact-real normal form, forward-mode AD, native replay with finite differences',
 'design_ref': 'DESIGN.md 5/C01'}
def run():
    CL.main('C01', groups, '', ['double is read as an exact real number', 'pi is identified with the double literal PI', 'transcendental calls are free symbols with derivative rules and axioms (cvsym/rdom.py)',
                               'polarPhi / dihedral: value within 170 degrees of the restraint centre (periodic image choice is C18)', 'atan2 branch cut excluded'],
            ['rotation-dependent components and rotateToReference', 'gpath/apath/NN/volumetric-map/custom components', 'OPES', 'enableFitGradients off', 'groups larger than 3 atoms', 'triclinic / periodic cells (C02/C18)'], MANIFEST['technique'])
