# C09: configuration parsing is total, strict and independent of layout
from cvsym import checklib as CL
FNS = ['h_c09_lookup_total', 'h_c09_braces', 'h_c09_getline_crlf', 'h_c09_layout', 'h_c09_int_value', 'h_c09_missing_value', 'h_c09_rvector']
def groups(tier):
    n = 6 if tier == 'quick' else 7
    b = {'key_lookup': 'every string of %d non-NUL bytes' % n, 'check_braces': 'every string of 5 bytes', 'getline': 'every line of 0-3 bytes, LF vs CRLF', 'layout': 'every 2-byte value; case, blanks, blank lines, neighbours',
         'typed values': 'integer: one digit + 2 arbitrary visible bytes; 3-vector: all four separators arbitrary visible bytes'}
    return [CL.Group('C09_parse.cpp', FNS, bounds=b, ext={'params': {'lookup_bytes': n}, 'bound_is_hang': True, 'max_steps': 3000000}, max_paths=30000, total_time=1500 if tier == 'quick' else 3600, fmode='exact')]
MANIFEST = {
 'level_text': 'Bounded bit-precise symbolic model checking of the real colvarparse::key_lookup / get_key_string_value / check_braces / _get_keyval_scalar_ / get_keyval, colvarmodule::getline and the 3-vector stream extractor, running libstdc++ string and stream code as real IR on symbolic bytes: for every byte string within the bound the functions terminate without any memory-safety event; a keyword is found only if present, never inside another word, and its value does not depend on letter case, blanks, tabs, blank lines or surrounding keywords; a line read with CRLF equals the line read with LF; an integer keyword accepts exactly the strings that are numbers; a missing value is an error (boolean shorthand means on); a 3-vector is accepted iff its four separators are "(", ",", ",", ")".',
 'level_note': 'bytes are 8-bit vectors; NUL bytes excluded; bounds on string lengths as stated (path count grows about 6x per byte). The top-level parse_config driver, check_keywords and brace-delimited multi-line values are exercised only concretely through every other check\'s set-up.',
 'technique': 'symbolic execution of LLVM IR on symbolic bytes (bit-vectors) + SMT (z3), libstdc++ string/stream code executed as IR',
 'design_ref': 'DESIGN.md 5/C09'}
def run():
    CL.main('C09', groups, '', ['operator new never fails', 'classic "C" locale'], ['strings longer than the bounds', 'check_keywords / parse_config on symbolic text', 'non-C locales'], MANIFEST['technique'])
