# C16: PMF integration solves the stated discrete problem; incremental divergence equals batch
from cvsym import checklib as CL
FNS = ['h_c16_1d_periodic', 'h_c16_1d_nonperiodic', 'h_c16_div_zp', 'h_c16_div_pz', 'h_c16_lap_zp', 'h_c16_lap_pz', 'h_c16_div_3d', 'h_c16_lap_3d']
def groups(tier):
    b = {'1-D': '4 bins, periodic and not, sample counts (2,0,5,1) and (3,3,3,3), arbitrary gradient sums', '2-D': '3 x 4 gradient bins, (non-periodic, periodic) and (periodic, non-periodic), anisotropic widths, arbitrary gradients, every changed bin',
         '3-D': '2 x 2 x 3 gradient bins (non-periodic, periodic, non-periodic)', 'ABF': '2-D ABF (3 x 4 bins) in the lagged-force convention: one real update() with the sample attributed to any previous bin'}
    return [CL.Group('C16_pmf.cpp', FNS, setup=['h_c16_setup'], bounds=b, max_paths=600),
            CL.Group('C16_abf2d.cpp', ['h_c16abf_step'], setup=['h_c16abf_setup'], bounds=b, max_paths=600, stubs=[('_ZN14colvarbias_abf11calc_energyE', lambda I, a: 0)])]
MANIFEST = {
 'level_text': 'Bounded symbolic model checking of the real integrate_potential code on grids built from variables defined by configuration text: 1-D integrate() gives exactly the cumulative sum of the bin-averaged gradients times the width, with the mean over all bins removed for a periodic variable (periodic closure 0), also with unvisited bins; in 2-D and 3-D, for arbitrary gradient data and every bin that receives a new sample, the divergence updated incrementally by update_div_neighbors() equals the divergence recomputed by set_div() in every cell (hence, by induction, for any order and multiplicity of arrivals); atimes() (the discrete Laplacian used by the conjugate-gradient solver) is linear, symmetric and annihilates constants for arbitrary vectors.',
 'level_note': 'exact-real reading. Not claimed: convergence of the conjugate-gradient iteration within itmax, the residual reached, and second-order convergence to a smooth surface (analytic limit statements); smoothed gradients; grids larger than stated.',
 'technique': 'symbolic execution of LLVM IR + SMT (z3): polynomial identities over arbitrary grid data (exact-real normal form)',
 'design_ref': 'DESIGN.md 5/C16'}
def run():
    CL.main('C16', groups, '', ['double is read as an exact real number'], ['CG convergence and tolerance', 'second-order accuracy', 'smoothed gradients (minSamples/fullSamples ramp)'], MANIFEST['technique'])
