# C12: results do not depend on threading or on the order of evaluation
from cvsym import checklib as CL
def _zero(I, a): return 0
STUBS = [('_ZN11colvarproxy11end_of_stepEv', _zero)]
def groups(tier):
    b = {'configuration': '2 variables (a linear combination of two distance components with total force output, a distance), 3 harmonic biases (one with timeStepFactor 2, one on both variables), scripted-force task running in parallel with the biases (scriptingAfterBiases off)',
         'steps': '2 steps: component flags changed between them (second component off, then on again), the multiple-time-step bias awake then asleep; arbitrary real coordinates and total forces',
         'threads': '8 logical threads (more than work items: every work item on its own thread), executed in ascending and descending order, the single task on the first thread, thread 0 or thread 1'}
    return [CL.Group('C12_smp.cpp', ['h_c12_step'], setup=['h_c12_setup'], omp=True, bounds=b, stubs=STUBS, max_paths=60, path_time=280, total_time=1200, diff=True)]
MANIFEST = {
 'level_text': 'Bounded symbolic model checking of the real OpenMP code paths (library compiled with -fopenmp; colvarmodule::calc_colvars() SMP branch with smp_loop(), calc_biases() with smp_biases_script_loop(), the locks and atomics as emitted by clang): the __kmpc_* / omp_* runtime is modelled by logical threads executed one after the other with the static schedule of libomp, each work item on its own thread. (1) Every byte accessed inside a parallel region is recorded with its thread and whether the access was atomic or under a lock; two accesses of different threads to the same byte, one a write, not both protected, are reported as a data race. Absence of such a pair means every interleaving and every assignment of the same work items to threads yields the same state. (2) With arbitrary real coordinates and total forces, values, total force, bias energies, total energy, the number of scripted-task invocations, the awake schedule and the force on every atom after the parallel schedule are proved equal to those of the serial schedule (smp mode none) of a fresh module, over two steps between which component flags and the set of awake biases change; the log indentation depth is restored after each step.',
 'level_note': 'the solver decides path feasibility and the equality of the two symbolic results; the race check is a set computation over the accesses of the symbolic execution (addresses are concrete, contents symbolic). Outside: the OpenMP runtime itself, memory-model effects below data-race freedom, code after a barrier inside a region (none in the regions covered), the parallel kernel sums of OPES (reductions), thread counts below the number of work items (covered by the finer partition), other bias types.',
 'technique': 'symbolic execution of the -fopenmp LLVM IR with logical threads + SMT (z3): access-set non-interference per parallel region and serial == parallel equality of symbolic results',
 'design_ref': 'DESIGN.md 5/C12'}
def run():
    CL.main('C12', groups, '', ['operator new never fails'], ['OPES kernel sums', 'the OpenMP runtime'], MANIFEST['technique'])
