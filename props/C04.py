# C04: ABF stores the mean force per bin and applies its smoothed negative
from cvsym import checklib as CL
def _zero(I, a): return 0
STUBS = [('_ZN14colvarbias_abf11calc_energyE', _zero)]
def groups(tier):
    b = {'grid': '1 variable x 4 bins, (minSamples, fullSamples) = (2, 4) and (0, 3), maxForce 7.5', 'counts': 'arbitrary integers in [0, 12]', 'gradients': 'arbitrary reals', 'previous bin': '-1..4 (outside / each bin)',
         'schedule': 'later step of a run, first step of a new run', 'other bias': 'a harmonic restraint acts on the same variable'}
    return [CL.Group('C04_abf.cpp', ['h_c04_lagged'], setup=['h_c04_setup_lagged'], bounds=b, stubs=STUBS, ext={'div_zero': 'fork'}, max_paths=1500),
            CL.Group('C04_abf.cpp', ['h_c04_same'], setup=['h_c04_setup_same'], bounds=b, stubs=STUBS, ext={'div_zero': 'fork'}, max_paths=1500)]
MANIFEST = {
 'level_text': 'Bounded symbolic model checking of one inductive step of the real colvarbias_abf::update() (through calc_colvars / calc_biases, variable and ABF + harmonic biases built from configuration text) from an arbitrary accumulated state, in both force-timing conventions (proxy subclass fixing total_forces_same_step() before configuration): every count and gradient cell is compared with the specification (sample = total force minus the ABF force that was being applied, attributed to the bin occupied when the force was exerted, only at eligible steps and inside the grid), the remembered bin, and the applied force = mean x documented ramp, capped by maxForce, zero outside the grid. By induction over steps: stored gradient = -sum of samples, count = number of samples.',
 'level_note': 'exact-real reading; counts are mathematical integers; divisions are checked for zero divisors (forked, IEEE result on the zero branch); colvarbias_abf::calc_energy (1-D PMF for the energy output) is stubbed; atoms on the x axis so that the total-force projection is linear. Outside: 2-3 variables, periodic zero-mean correction, eABF/CZAR, pABF, shared ABF (C14), subtractAppliedForce/hideJacobian variants.',
 'technique': 'symbolic execution of LLVM IR through the public API + SMT (z3): inductive step from a symbolic pre-state, integer counts, real gradients',
 'design_ref': 'DESIGN.md 5/C04'}
def run():
    CL.main('C04', groups, '', ['double is read as an exact real number', 'counts in [0,12]'], ['multi-dimensional ABF', 'periodic variable (zero-mean force)', 'eABF / CZAR / pABF', 'subtractAppliedForce, hideJacobian'], MANIFEST['technique'])
