# C08: bias contributions superpose; multiple-time-step scaling conserves impulse
from cvsym import checklib as CL
FNS = ['h_c08_step', 'h_c08_first_step', 'h_c08_second_step']
def groups(tier):
    b = {'biases': 'harmonic (factor 1) on d, harmonic (factor 2) on d and z, harmonicWalls (factor 3, bypassing extended dynamics) on z, linear on z, histogram on d; the two variables share an atom',
         'steps': 'symbolic step in [0, 30]: a later step of a run, the first step of a run starting anywhere, and the step after it', 'values': 'all real values'}
    return [CL.Group('C08_superpose.cpp', FNS, setup=['h_c08_setup'], bounds=b)]
MANIFEST = {
 'level_text': 'Bounded symbolic model checking of the real calc_colvars (awake schedule) / calc_biases / update_colvar_forces / colvarbias::communicate_forces through the public API with five biases on two variables sharing an atom, at a symbolic step number: a bias with time-step factor n is awake iff the step is a multiple of n; the force on each variable is the sum over awake biases of n x the instantaneous force (closed forms), the reported energy is the sum over awake biases only (non-biasing and sleeping biases contribute nothing), and every proxy atom receives exactly the superposition.',
 'level_note': 'exact-real reading; step numbers are mathematical integers in [0,30]; time-step factors 1, 2, 3; variables with their own timeStepFactor and extended-Lagrangian variables are C17; biases reading total forces outside.',
 'technique': 'symbolic execution of LLVM IR through the public API + SMT (z3): symbolic step number (linear integer arithmetic), exact-real closed forms',
 'design_ref': 'DESIGN.md 5/C08'}
def run():
    CL.main('C08', groups, '', ['double is read as an exact real number'], ['time-step factors on variables', 'ABF / total-force biases under superposition', 'scripted forces'], MANIFEST['technique'])
