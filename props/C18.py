# C18: distances, gradients and wrapping of variable values form a consistent metric
from cvsym import checklib as CL
VAL = ['h_c18_scalar', 'h_c18_vec3', 'h_c18_vector', 'h_c18_unitvec', 'h_c18_unitvec_interp', 'h_c18_quat', 'h_c18_quat_zero', 'h_c18_quat_interp', 'h_c18_constraints']
CVL = ['h_c18cv_dihedral', 'h_c18cv_custom_period', 'h_c18cv_nonperiodic', 'h_c18cv_dvec', 'h_c18cv_dvec_nopbc', 'h_c18cv_dvec_pbc', 'h_c18cv_ddir']
def groups(tier):
    b = {'values': 'all real values of each type; unit vectors / quaternions constrained to unit norm', 'periods': '360 (dihedral), 7 and 2.5 (custom period), symbolic wrap centre',
         'cell': 'non-periodic, and orthorhombic 10 x 12.5 x 17 with separations below 1000 edges', 'period shifts n': '[-3, 3]'}
    return [CL.Group('C18_metric.cpp', VAL, ext={'pi_symbol': True}, bounds=b),
            CL.Group('C18_colvar.cpp', CVL, setup=['h_c18cv_setup'], bounds=b)]
ASSUME = ['double is read as an exact real number (rounding, overflow, NaN outside the claim)',
          'acos/sin are free symbols with derivative rules and the axioms listed in DESIGN.md 3.4; the literal PI denotes pi',
          'unit quaternions satisfy |q.Q| <= 1 (Cauchy-Schwarz supplied as a lemma)',
          'quaternion gradient: 1 - cos^2 >= 1e-28 (the code returns a null gradient below its own 1e-14 guard)',
          'gradient of the minimum-image vector distance: strictly inside the half-cell faces (not differentiable on them)']
OUT = ['symbolic periods and cell edges (non-linear integer-real arithmetic)', 'dist2_rgrad (not part of the property statement)', 'generic vectors longer than 3',
       'colvar-level dist2 of scripted / custom-function variables']
MANIFEST = {
 'level_text': 'Bounded symbolic model checking of the real dist2 / dist2_grad / dist2_lgrad / wrap / interpolate / apply_constraints code (colvarvalue, quaternion, cvc, distance_vec, distance_dir, colvar) for every value type: each metric law is an SMT query over all values (exact-real reading), unsat on every explored path; gradients are compared with the derivative of the executed value code. Bounds: periods on a slice of concrete values, orthorhombic cell with concrete edges.',
 'level_note': 'double read as exact real; acos/sin as free symbols with derivative rules and axioms; trusted: clang-14 IR, irdump, cvsym interpreter, z3. Symbolic periods/cell edges, rounding, dist2_rgrad outside the claim.',
 'technique': 'symbolic execution of LLVM IR + SMT (z3), exact-real normal form, forward-mode AD, native replay of models',
 'design_ref': 'DESIGN.md 5/C18'}
def run():
    CL.main('C18', groups, '', ASSUME, OUT, 'symbolic execution of the LLVM IR of the real dist2/dist2_grad/wrap/interpolate code; z3 decides each identity (exact-real normal form, forward-mode AD)')
