# C06: restraints implement their documented potentials and time schedules
from cvsym import checklib as CL
FNS = ['h_c06_potentials', 'h_c06_centers_continuous', 'h_c06_centers_staged', 'h_c06_k_continuous', 'h_c06_k_staged', 'h_c06_k_staged_decoupling']
def groups(tier):
    b = {'steps': 'step t, first step of the run r, first step of the schedule f: mathematical integers in [0, 60] with r <= t, f <= t', 'schedules': 'targetNumSteps 10 / 5 x 4 stages / 8 x 3 stages with 3 equilibration steps (targetForceConstant and decoupling), lambdaExponent 2',
         'values': 'all real values (0 < x < 1000, |z| < 1000)', 'pre-state': 'arbitrary centre / force constant / accumulated work / TI accumulator / stage'}
    return [CL.Group('C06_restraints.cpp', FNS, setup=['h_c06_setup'], bounds=b)]
MANIFEST = {
 'level_text': 'Bounded symbolic model checking of the real restraint code on biases built from configuration text. Potentials: harmonic on a periodic variable (shortest image), one- and two-sided walls with relative constants, closest-wall rule on a periodic variable, linear: energy and force equal closed forms written independently in the harness, for all values. Schedules: one inductive step of the real update() from an arbitrary pre-state at a symbolic step t with symbolic run start and schedule start: centre / force constant / stage are the closed-form function of t alone, accumulated work grows by force x centre increment (dU/dk x k increment), the staged TI accumulator counts exactly the post-equilibration steps and the logged dA/dlambda is its mean.',
 'level_note': 'exact-real reading; steps are mathematical integers in [0,60]; concrete schedule lengths; lambdaExponent 2 (integer power, exact); log text is captured with in-band tokens (the number after "dA/dLambda=" is compared, not its formatting). ABMD and histogramRestraint potentials are covered through C01 (force = -dE/dx) only; lambdaSchedule lists, continuous decoupling (staged decoupling is covered), vector/quaternion centres outside.',
 'technique': 'symbolic execution of LLVM IR + SMT (z3): inductive step with symbolic integer step numbers, exact-real closed forms',
 'design_ref': 'DESIGN.md 5/C06'}
def run():
    CL.main('C06', groups, '', ['double is read as an exact real number', 'step numbers are mathematical integers in [0, 60]'],
            ['lambdaSchedule, decoupling', 'non-scalar restraint centres (interpolate is C18)', 'text of log lines', 'ABMD / histogramRestraint closed forms'], MANIFEST['technique'])
