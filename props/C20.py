# C20: the scripting interface is total and agrees with the engine-side view
from cvsym import checklib as CL
def groups(tier):
    b = {'totality': 'every registered command (86) x every argument count 0..max+1 x 4 kinds of argument words (numbers, empty strings, garbage, plausible names), argument vector and words allocated to their exact size; 10 truncated / unknown command lines; 12 unknown sub-commands / object names',
         'queries': 'arbitrary real coordinates; value (scalar, 3-vector), applied force, bias energy, total energy, atom applied forces / positions / ids, atomic gradients, step number',
         'actions': 'cv config vs read_config_string, cv colvar addforce (plain and extended-Lagrangian variable, running simulation) vs colvar::add_bias_force, cv reset; arbitrary real coordinates and forces'}
    g = [CL.Group('C20_script.cpp', ['h_c20_total'], setup=['h_c20_setup'], bounds=b, max_paths=6000, path_time=120, total_time=900 if tier == 'quick' else 2400, diff=False, ext={'params': {'independent_args': 0 if tier == 'quick' else 1}}),
         CL.Group('C20_script.cpp', ['h_c20_truncated', 'h_c20_unknown', 'h_c20_queries'], setup=['h_c20_setup'], bounds=b, max_paths=100, path_time=200, total_time=600, diff=True),
         CL.Group('C20_script.cpp', ['h_c20_actions'], setup=['h_c20_setup_actions'], bounds=b, max_paths=60, path_time=280, total_time=900, diff=True)]
    return g
MANIFEST = {
 'level_text': 'Bounded symbolic model checking of the real colvarscript::run() and command bodies: (1) totality: every registered command with every argument count from 0 to max+1 and four kinds of argument words is dispatched through the real run() with an argument vector allocated to exactly objc entries (any read of objv[objc], of a NULL argument or past a word is a monitor violation), wrong argument counts must be rejected, and afterwards the module must still answer "cv version", take a step and answer "cv getenergy"; (2) agreement: with arbitrary real coordinates the text returned by the query commands is parsed (symbolic numbers travel through the result string as in-band tokens) and proved equal to the internal quantity (variable values, applied force, bias and total energy, atomic gradients) and to what the engine receives (atom applied forces, positions, ids); (3) actions: configuration through "cv config" and forces through "cv colvar addforce" (symbolic force) on a plain and an extended-Lagrangian variable in a running simulation are proved to leave exactly the atom forces, extended coordinate, applied forces and energy of the direct read_config_string / add_bias_force path after "cv reset".',
 'level_note': 'single commands from one fixed module state (no command sequences beyond command + step + two queries); argument words from 4 fixed kinds; Tcl front end, file-loading commands with existing files, total forces, state save/load round trip (C03) outside.',
 'technique': 'symbolic execution of LLVM IR through the public scripting entry point + SMT (z3): enumeration of the registered command table with memory-safety monitors, symbolic coordinates / forces traced through result text by in-band tokens',
 'design_ref': 'DESIGN.md 5/C20'}
def run():
    CL.main('C20', groups, '', ['operator new never fails'], ['command sequences', 'Tcl front end', 'save/load round trip'], MANIFEST['technique'])
