# C11: damaged state never crashes the host; every value type of the binary stream is read back exactly as written
from cvsym import checklib as CL
RT = ['h_c11_rt_char', 'h_c11_rt_int', 'h_c11_rt_size_t', 'h_c11_rt_long', 'h_c11_rt_double', 'h_c11_rt_rvector', 'h_c11_rtv_char', 'h_c11_rtv_int', 'h_c11_rtv_size_t',
      'h_c11_rtv_double', 'h_c11_rtv_rvector', 'h_c11_rt_string', 'h_c11_rt_vector1d', 'h_c11_rt_colvarvalue']
DMG = ['h_c11_dmg_vdouble', 'h_c11_dmg_vint', 'h_c11_dmg_vchar', 'h_c11_dmg_vrvector', 'h_c11_dmg_string', 'h_c11_dmg_objects', 'h_c11_dmg_vector1d', 'h_c11_dmg_colvarvalue']
def groups(tier):
    b = {'vector/string lengths': '0..3 elements, symbolic contents', 'damaged buffer': '24 arbitrary bytes, any declared length 0..24 (truncation at every offset)',
         'element types': 'char, int, size_t, long long, double, rvector, std::string, vector1d<real>, colvarvalue (scalar, 3-vector, unit vector, quaternion, vector)'}
    return [CL.Group('C11_memstream.cpp', RT + DMG, bounds=b)]
MANIFEST = {
 'level_text': 'Bounded symbolic model checking of the real cvm::memory_stream code (write_object/write_vector/read_object/read_vector, string, vector1d and colvarvalue specialisations): round trip of every value type with symbolic contents and 0-3 elements (value read == value written, length() == bytes needed, following object still found); reads from 24 arbitrary bytes with every declared length: no out-of-bounds access, no uncaught exception, no allocation from an unchecked length, read position never passes the end, success implies the data fit. Bit-precise (bit-vector) reading of integers and bytes.',
 'level_note': 'Crash consistency of state-file replacement (rename-before-overwrite) and truncated text states are NOT claimed (file streams / file-system model not built); allocation failure outside the claim; buffers longer than 24 bytes and vectors longer than 3 outside the bound.',
 'technique': 'symbolic execution of LLVM IR with bit-vector bytes + SMT (z3); memory-safety monitors; native replay under ASan/UBSan',
 'design_ref': 'DESIGN.md 5/C11 (b),(c)'}
ASSUME = ['operator new never fails', 'unit vectors / quaternions written have unit norm (they are normalised when read)']
OUT = ['(a) crash points during state-file replacement', '(d) truncated text state', 'read_block / grid read_raw / read_hill on damaged input', 'buffers > 24 bytes, vectors > 3 elements']
def run():
    CL.main('C11', groups, '', ASSUME, OUT, MANIFEST['technique'])
