# C11: damaged state never crashes the host; every value type of the binary stream is read back exactly as written
from cvsym import checklib as CL
RT = ['h_c11_rt_char', 'h_c11_rt_int', 'h_c11_rt_size_t', 'h_c11_rt_long', 'h_c11_rt_double', 'h_c11_rt_rvector', 'h_c11_rtv_char', 'h_c11_rtv_int', 'h_c11_rtv_size_t',
      'h_c11_rtv_double', 'h_c11_rtv_rvector', 'h_c11_rt_string', 'h_c11_rt_vector1d', 'h_c11_rt_colvarvalue']
DMG = ['h_c11_dmg_vdouble', 'h_c11_dmg_vint', 'h_c11_dmg_vchar', 'h_c11_dmg_vrvector', 'h_c11_dmg_string', 'h_c11_dmg_objects', 'h_c11_dmg_vector1d', 'h_c11_dmg_colvarvalue']
def groups(tier):
    b = {'vector/string lengths': '0..3 elements, symbolic contents', 'damaged buffer': '24 arbitrary bytes, any declared length 0..24 (truncation at every offset)',
         'element types': 'char, int, size_t, long long, double, rvector, std::string, vector1d<real>, colvarvalue (scalar, 3-vector, unit vector, quaternion, vector)'}
    b['state file replacement'] = 'the state file (the restart name and another name) written three times through write_restart_file(); every crash point of the recorded file-operation trace (before each operation and inside each write)'
    b['truncated text state'] = 'text state of 2 variables + a moving harmonic bias (358 bytes) cut at every offset; text state of 3 variables (one with an extended coordinate and velocity) + ABF (count and gradient grids) + metadynamics (energy and gradient grids, kept hills) + histogram grid + moving harmonic bias, cut at every offset'
    return [CL.Group('C11_memstream.cpp', RT + DMG, bounds=b),
            CL.Group('C11_files.cpp', ['h_c11f_crash', 'h_c11f_truncated'], setup=['h_c11f_setup'], bounds=b, max_paths=1000, path_time=120, total_time=900, diff=False),
            CL.Group('C11_objects.cpp', ['h_c11o_whole', 'h_c11o_truncated'], setup=['h_c11o_setup'], bounds=b, max_paths=6000, path_time=120, total_time=1500, diff=False)]
MANIFEST = {
 'level_text': 'Bounded symbolic model checking of the real cvm::memory_stream code (write_object/write_vector/read_object/read_vector, string, vector1d and colvarvalue specialisations): round trip of every value type with symbolic contents and 0-3 elements (value read == value written, length() == bytes needed, following object still found); state-file replacement leaves a complete state at every crash point; a text state cut inside an object block is an error (two states: variables + moving restraint; and variables + extended coordinate + ABF + metadynamics with grids and kept hills + histogram + moving restraint), the uncut state loaded into the module that wrote it is accepted and saved again unchanged; reads from 24 arbitrary bytes with every declared length: no out-of-bounds access, no uncaught exception, no allocation from an unchecked length, read position never passes the end, success implies the data fit. Bit-precise (bit-vector) reading of integers and bytes.',
 'level_note': '(a) state-file replacement: the real write_restart_file / output_stream / backup_file / rename_file run on the in-memory file-system model of the interpreter; the crash points are enumerated over the recorded operation trace (no solver role there: the trace is concrete), and after every call the new file must be complete, hold exactly the current state and the previous one must be kept as .old; rename is atomic, a write may be cut anywhere. (d) the text states (358 and 1265 bytes) are cut at every offset (enumerated): inside an object block the load must report an error; the module-level configuration block at the head of the file is only required not to crash. Allocation failure outside the claim; buffers longer than 24 bytes and vectors longer than 3 outside the bound.',
 'technique': 'symbolic execution of LLVM IR with bit-vector bytes + SMT (z3); memory-safety monitors; native replay under ASan/UBSan',
 'design_ref': 'DESIGN.md 5/C11'}
ASSUME = ['operator new never fails', 'unit vectors / quaternions written have unit norm (they are normalised when read)']
OUT = ['bit flips in text states', 'grid read_raw / read_hill on damaged input', 'binary state files on disk', 'buffers > 24 bytes, vectors > 3 elements']
def run():
    CL.main('C11', groups, '', ASSUME, OUT, MANIFEST['technique'])
