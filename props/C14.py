# C14: multiple-walker sharing combines every walker's data exactly once
from cvsym import checklib as CL
def _zero(I, a): return 0
STUBS = [('_ZN14colvarbias_abf11calc_energyE', _zero), ('_ZNK20colvar_grid_gradient9grid_rmsd', _zero)]
FNS = ['h_c14_abf1d', 'h_c14_abf2d']
def groups(tier):
    b = {'walkers': '2 and 3 walkers, each a separate proxy + module instance in one address space (the static module pointer is switched between them)',
         'history': 'two rounds of (1-2 steps per walker in different bins, exchange); walkers take different numbers of steps; arbitrary real coordinates inside the bins and arbitrary total forces',
         'restart': 'no walker / walker 0 / walker 1 stopped after the first exchange, saved (text state), destroyed and resumed in a fresh instance, replaying the step of its state',
         'grids': '1 variable x 4 bins; 2 variables x 2 x 2 bins (gradient multiplicity 2)'}
    return [CL.Group('C14_shared.cpp', [f], setup=['h_c14_setup'], bounds=b, stubs=STUBS, max_paths=100, path_time=280, total_time=1500, ext={'div_zero': 'fork'}, diff=True) for f in FNS]
MANIFEST = {
 'level_text': 'Bounded symbolic model checking of the real shared-ABF exchange (colvarbias_abf::replica_share(), delta_grid / add_grid / copy_grid / raw_data_in / raw_data_out of the grids, write/read of the state with local and shared grids) between 2-3 walker instances running the real update() on arbitrary real coordinates and total forces. The engine interface of each walker is a message queue; a walker that waits for the combined data before walker 0 has run receives placeholder symbols that are bound to the message walker 0 later sends, so that the walkers of one exchange run one after the other (the protocol has a barrier after each exchange, so the order of the walkers within an exchange is the only interleaving there is). The harness keeps its own ledger from snapshots it takes itself (what each walker added between exchanges); after every exchange, for every walker and every grid entry: shared gradient sums and counts equal the sum over walkers of their contributions, each counted once; the walker\'s local grids equal its own contributions; all messages are consumed and message sizes agree.',
 'level_note': 'exchange protocol order fixed by its barrier; 2 exchanges; ramp parameters large so that the ABF force is zero; integration of the PMF off; grid_rmsd (log message) and calc_energy stubbed. Outside: CZAR/eABF sharing (replica_share_CZAR), multiple-walker metadynamics (file-based hill exchange, truncated peer files), absent or slow peers, more than 3 walkers.',
 'technique': 'symbolic execution of LLVM IR through the public API + SMT (z3): several module instances, message-passing stub with prophecy placeholders, ledger invariants over symbolic histories',
 'design_ref': 'DESIGN.md 5/C14'}
def run():
    CL.main('C14', groups, '', ['operator new never fails', 'the exchange protocol is synchronous (barrier after each exchange)'], ['multiple-walker metadynamics', 'CZAR sharing', 'truncated peer files'], MANIFEST['technique'])
