# C14: multiple-walker sharing combines every walker's data exactly once
from cvsym import checklib as CL
def _zero(I, a): return 0
STUBS = [('_ZN14colvarbias_abf11calc_energyE', _zero), ('_ZNK20colvar_grid_gradient9grid_rmsd', _zero)]
FNS = ['h_c14_abf1d', 'h_c14_abf2d']
# std::filesystem (current_path, path::operator/) lives in libstdc++.so, not in the IR: the two path helpers of colvarproxy_io are modelled
def _mk_string(I, sret, bs):
    n = len(bs)
    if n < 16:
        I.store(sret, (sret[0], sret[1] + 16), 8); I.store((sret[0], sret[1] + 8), n, 8)
        I.write_bytes((sret[0], sret[1] + 16), list(bs) + [0])
    else:
        buf = I.alloc(n + 1, 'std::string', 'heap'); I.write_bytes(buf, list(bs) + [0])
        I.store(sret, buf, 8); I.store((sret[0], sret[1] + 8), n, 8); I.store((sret[0], sret[1] + 16), n, 8)
def _get_string(I, p):
    ptr = I.load(p, 8, 'ptr'); n = I.load((p[0], p[1] + 8), 8, 'i64')
    return I.read_bytes(ptr, n) if n else []
def _cwd(I, a):
    _mk_string(I, a[0], list(b'/w')); return None
def _join(I, a):
    _mk_string(I, a[0], _get_string(I, a[2]) + [ord('/')] + _get_string(I, a[3])); return None
STUBS_META = [('_ZNK14colvarproxy_io20get_current_work_dir', _cwd), ('_ZNK14colvarproxy_io10join_paths', _join)]
def groups(tier):
    b = {'walkers': '2 and 3 walkers, each a separate proxy + module instance in one address space (the static module pointer is switched between them)',
         'history': 'two rounds of (1-2 steps per walker in different bins, exchange); walkers take different numbers of steps; arbitrary real coordinates inside the bins and arbitrary total forces',
         'restart': 'no walker / walker 0 / walker 1 stopped after the first exchange, saved (text state), destroyed and resumed in a fresh instance, replaying the step of its state',
         'grids': '1 variable x 4 bins; 2 variables x 2 x 2 bins (gradient multiplicity 2)'}
    b['metadynamics'] = '2 walkers, multipleReplicas with grids (1 variable x 4 bins), hills at every step, exchanges at steps 0, 2, 4; walker 1 re-reads walker 0 before / between / after walker 0 rewrites its state file and empties its hills buffer (enumerated); a walker joining late reads the peer for the first time between / after these two operations; arbitrary real positions inside fixed bins'
    meta = [CL.Group('C14_meta.cpp', ['h_c14m_exchange', 'h_c14m_latejoin'], setup=['h_c14m_setup'], bounds=b, stubs=STUBS_META, max_paths=60, path_time=280, total_time=1200, diff=False)]
    return meta + [CL.Group('C14_shared.cpp', [f], setup=['h_c14_setup'], bounds=b, stubs=STUBS, max_paths=100, path_time=280, total_time=1500, ext={'div_zero': 'fork'}, diff=True) for f in FNS]
MANIFEST = {
 'level_text': 'Bounded symbolic model checking of the real shared-ABF exchange (colvarbias_abf::replica_share(), delta_grid / add_grid / copy_grid / raw_data_in / raw_data_out of the grids, write/read of the state with local and shared grids) between 2-3 walker instances running the real update() on arbitrary real coordinates and total forces. The engine interface of each walker is a message queue; a walker that waits for the combined data before walker 0 has run receives placeholder symbols that are bound to the message walker 0 later sends, so that the walkers of one exchange run one after the other (the protocol has a barrier after each exchange, so the order of the walkers within an exchange is the only interleaving there is). The harness keeps its own ledger from snapshots it takes itself (what each walker added between exchanges); after every exchange, for every walker and every grid entry: shared gradient sums and counts equal the sum over walkers of their contributions, each counted once; the walker\'s local grids equal its own contributions; all messages are consumed and message sizes agree.',
 'level_note': 'exchange protocol order fixed by its barrier; 2 exchanges; ramp parameters large so that the ABF force is zero; integration of the PMF off; grid_rmsd (log message) and calc_energy stubbed. Multiple-walker metadynamics: two walker instances exchange hills through the real files (registry, list, state and hills buffer files on the in-memory file-system model; std::filesystem path helpers modelled): after every exchange the view a walker has of its peer (mirror grid + explicit hills not yet projected, evaluated at every bin centre) must equal the sum of the hills the peer made known so far, each once, for the three points at which the reader can synchronise relative to the peer rewriting its state file and emptying its hills buffer. Four known findings (hills written after a buffer reopening are not read until the next state of the peer) are recorded in known_findings.json. Outside: CZAR/eABF sharing (replica_share_CZAR), peer files truncated at arbitrary bytes, absent peers, more than 3 walkers (ABF) / 2 walkers (metadynamics).',
 'technique': 'symbolic execution of LLVM IR through the public API + SMT (z3): several module instances, message-passing stub with prophecy placeholders, ledger invariants over symbolic histories',
 'design_ref': 'DESIGN.md 5/C14'}
def run():
    CL.main('C14', groups, '', ['operator new never fails', 'the exchange protocol is synchronous (barrier after each exchange)'], ['CZAR sharing', 'peer files truncated at arbitrary bytes'], MANIFEST['technique'])
