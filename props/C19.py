# C19: written outputs faithfully describe the internal state at the stated step
from cvsym import checklib as CL
def _zero(I, a): return 0
# force statistics of the stub proxy (max / rms of the applied forces): comparisons of symbolic forces unrelated to the outputs
STUBS = [('_ZN11colvarproxy11end_of_stepEv', _zero)]
FNS = ['h_c19_traj', 'h_c19_runave', 'h_c19_acf_coor', 'h_c19_acf_vel', 'h_c19_acf_p2', 'h_c19_acf_offset', 'h_c19_acf_cross']
def groups(tier):
    b = {'trajectory': 'colvarsTrajFrequency 1..3 x first step of the run 0, 1, 4 (enumerated); 6 steps; arbitrary real positions at every step; scalar variable with velocity and applied-force columns, 3-vector variable, harmonic bias with moving centres (energy, centre, accumulated work columns)',
         'running average': 'runAveLength 2..3 x runAveStride 1..2 (enumerated); 8 steps of arbitrary real values',
         'correlation functions': 'coordinate and velocity (scalar), coordinate_p2 (3-vector of changing length); corrFuncLength 2, stride 1..2, offset 0 (and 1 in one case), normalised and not; cross-correlation of two scalar variables; 7 steps of arbitrary real values'}
    return [CL.Group('C19_output.cpp', [f], setup=['h_c19_setup'], bounds=b, stubs=STUBS, max_paths=60, path_time=280, total_time=900, diff=True) for f in FNS]
MANIFEST = {
 'level_text': 'Bounded symbolic model checking of the real output code through the public API (colvarmodule::calc() with the real trajectory / analysis writers, files held by the in-memory file-system model of the interpreter and read back by the harness with std::ifstream): with arbitrary real coordinates at every step (symbolic numbers travel through the formatted text as in-band tokens), every line of the trajectory file is parsed against the preceding label line: same number of fields as labels, step number = a multiple of the frequency inside the run with no multiple skipped or repeated, and each labelled column (value, velocity, applied force, 3-vector value, bias energy, restraint centre, accumulated work) equals the quantity held by the object at that step (accumulated work: sum of force x centre displacement over the steps so far). Running average and standard deviation lines equal mean and sample variance of the window ending at the step of the line; correlation-function rows equal the average over the announced number of most recent frames of x(t).x(t-lag) (P2 of the cosine for coordinate_p2), normalised or not.',
 'level_note': 'frequencies, lengths and strides are enumerated small values, the values themselves are arbitrary reals (exact-real reading; the %.14e rounding of the text is outside); 6-8 steps. Outside: other output flags (total force, extended Lagrangian columns), other bias types, label repetition every 1000 lines, restarts appending to an existing file. colvarproxy::end_of_step (force statistics) is stubbed. Three known findings (first row with corrFuncOffset > 0, cross-correlation) are recorded in known_findings.json.',
 'technique': 'symbolic execution of LLVM IR through the public API + SMT (z3): symbolic values traced through formatted output text by in-band tokens, in-memory file-system model',
 'design_ref': 'DESIGN.md 5/C19'}
def run():
    CL.main('C19', groups, '', ['operator new never fails', 'the text formatting is exact (in-band tokens stand for the printed digits)'], ['rounding of the printed digits', 'restart / append'], MANIFEST['technique'])
