// Probe: dump an LLVM-14 bitcode module as JSON lines (one per global / function)
#include "llvm/IR/Module.h"
#include "llvm/IR/LLVMContext.h"
#include "llvm/IR/Instructions.h"
#include "llvm/IR/IntrinsicInst.h"
#include "llvm/IR/Constants.h"
#include "llvm/IR/DataLayout.h"
#include "llvm/IR/Operator.h"
#include "llvm/IR/GetElementPtrTypeIterator.h"
#include "llvm/IRReader/IRReader.h"
#include "llvm/Support/SourceMgr.h"
#include "llvm/Support/raw_ostream.h"
#include <map>
#include <string>
using namespace llvm;

static const DataLayout *DL;
static std::string TU;
static std::string gname(const GlobalValue *gv) {
  std::string n = gv->getName().str();
  if (gv->hasLocalLinkage() || n == "llvm.global_ctors" || n == "llvm.global_dtors" || n == "llvm.used" || n == "llvm.compiler.used") return TU + "::" + n;
  return n;
}
static raw_ostream *O;

static std::string esc(StringRef s) {
  std::string r;
  for (unsigned char c : s) {
    if (c == '"' || c == '\\') { r += '\\'; r += c; }
    else if (c < 32 || c > 126) { char b[8]; snprintf(b, 8, "\\u%04x", c); r += b; }
    else r += c;
  }
  return r;
}

static std::string tystr(Type *t) {
  if (t->isVoidTy()) return "void";
  if (t->isIntegerTy()) return "i" + std::to_string(t->getIntegerBitWidth());
  if (t->isDoubleTy()) return "f64";
  if (t->isFloatTy()) return "f32";
  if (t->isPointerTy()) return "ptr";
  if (t->isX86_FP80Ty()) return "f80";
  if (auto *st = dyn_cast<StructType>(t)) {
    std::string r = "{";
    for (unsigned i = 0; i < st->getNumElements(); i++) { if (i) r += ","; r += tystr(st->getElementType(i)); }
    return r + "}";
  }
  if (auto *at = dyn_cast<ArrayType>(t)) return "[" + std::to_string(at->getNumElements()) + "x" + tystr(at->getElementType()) + "]";
  if (auto *vt = dyn_cast<FixedVectorType>(t)) return "<" + std::to_string(vt->getNumElements()) + "x" + tystr(vt->getElementType()) + ">";
  if (t->isFunctionTy()) return "fn";
  if (t->isLabelTy()) return "label";
  if (t->isMetadataTy()) return "md";
  if (t->isTokenTy()) return "token";
  return "?";
}

struct FnCtx { std::map<const Value *, int> ids; int next = 0; };

static void gepOffsets(const GEPOperator *G, FnCtx *F, std::string &out);
static std::string opnd(const Value *v, FnCtx *F);

static std::string constStr(const Constant *c, FnCtx *F) {
  if (auto *ci = dyn_cast<ConstantInt>(c)) {
    SmallString<40> s; ci->getValue().toStringUnsigned(s);
    return "[\"ci\"," + std::to_string(ci->getBitWidth()) + ",\"" + s.str().str() + "\"]";
  }
  if (auto *cf = dyn_cast<ConstantFP>(c)) {
    SmallString<40> s; cf->getValueAPF().bitcastToAPInt().toStringUnsigned(s);
    return "[\"cf\",\"" + tystr(c->getType()) + "\",\"" + s.str().str() + "\"]";
  }
  if (isa<ConstantPointerNull>(c)) return "[\"null\"]";
  if (isa<UndefValue>(c)) return "[\"undef\",\"" + tystr(c->getType()) + "\"]";
  if (isa<ConstantAggregateZero>(c)) return "[\"zero\",\"" + tystr(c->getType()) + "\"]";
  if (auto *gv = dyn_cast<GlobalValue>(c)) return "[\"g\",\"" + esc(gname(gv)) + "\"]";
  if (auto *ce = dyn_cast<ConstantExpr>(c)) {
    if (auto *G = dyn_cast<GEPOperator>(ce)) {
      std::string r = "[\"cegep\"," + opnd(G->getPointerOperand(), F) + ",";
      gepOffsets(G, F, r);
      return r + "]";
    }
    std::string r = "[\"ce\",\"" + std::string(ce->getOpcodeName()) + "\",\"" + tystr(ce->getType()) + "\"";
    if (ce->isCompare()) r += ",\"" + CmpInst::getPredicateName((CmpInst::Predicate)ce->getPredicate()).str() + "\"";
    for (auto &u : ce->operands()) r += "," + opnd(u.get(), F);
    return r + "]";
  }
  if (auto *cs = dyn_cast<ConstantStruct>(c)) {
    auto *SL = DL->getStructLayout(cs->getType());
    std::string r = "[\"cstruct\",\"" + tystr(c->getType()) + "\",[";
    for (unsigned i = 0; i < cs->getNumOperands(); i++) { if (i) r += ","; r += std::to_string(SL->getElementOffset(i)); }
    r += "]";
    for (auto &u : cs->operands()) r += "," + opnd(u.get(), F);
    return r + "]";
  }
  if (auto *ca = dyn_cast<ConstantAggregate>(c)) {
    std::string r = "[\"cagg\",\"" + tystr(c->getType()) + "\"";
    for (auto &u : ca->operands()) r += "," + opnd(u.get(), F);
    return r + "]";
  }
  if (auto *cd = dyn_cast<ConstantDataSequential>(c)) {
    std::string r = "[\"cagg\",\"" + tystr(c->getType()) + "\"";
    for (unsigned i = 0; i < cd->getNumElements(); i++) r += "," + constStr(cd->getElementAsConstant(i), F);
    return r + "]";
  }
  if (auto *ba = dyn_cast<BlockAddress>(c)) return "[\"blockaddr\"]";
  return "[\"unk\"]";
}

static std::string opnd(const Value *v, FnCtx *F) {
  if (auto *c = dyn_cast<Constant>(v)) return constStr(c, F);
  if (auto *bb = dyn_cast<BasicBlock>(v)) return "[\"bb\"," + std::to_string(F->ids.at(bb)) + "]";
  if (isa<MetadataAsValue>(v)) return "[\"md\"]";
  if (isa<InlineAsm>(v)) return "[\"asm\"]";
  auto it = F->ids.find(v);
  if (it == F->ids.end()) return "[\"unk\"]";
  return "[\"v\"," + std::to_string(it->second) + "]";
}

// constant byte offset + list of [operand, scale]
static void gepOffsets(const GEPOperator *G, FnCtx *F, std::string &out) {
  int64_t off = 0; std::string var = "[";
  bool first = true;
  for (gep_type_iterator gi = gep_type_begin(G), ge = gep_type_end(G); gi != ge; ++gi) {
    Value *idx = gi.getOperand();
    if (StructType *st = gi.getStructTypeOrNull()) {
      unsigned f = cast<ConstantInt>(idx)->getZExtValue();
      off += DL->getStructLayout(st)->getElementOffset(f);
    } else {
      uint64_t sz = DL->getTypeAllocSize(gi.getIndexedType());
      if (auto *ci = dyn_cast<ConstantInt>(idx)) off += ci->getSExtValue() * (int64_t)sz;
      else { if (!first) var += ","; first = false; var += "[" + opnd(idx, F) + "," + std::to_string(sz) + "]"; }
    }
  }
  out += std::to_string(off) + "," + var + "]";
}

static void dumpFunction(const Function &Fn) {
  FnCtx F;
  for (auto &a : Fn.args()) F.ids[&a] = F.next++;
  for (auto &bb : Fn) F.ids[&bb] = F.next++;
  for (auto &bb : Fn) for (auto &I : bb) if (!I.getType()->isVoidTy()) F.ids[&I] = F.next++;
  *O << "{\"k\":\"f\",\"name\":\"" << esc(gname(&Fn)) << "\",\"ret\":\"" << tystr(Fn.getReturnType()) << "\",\"vararg\":" << (Fn.isVarArg() ? 1 : 0) << ",\"args\":[";
  bool first = true;
  for (auto &a : Fn.args()) {
    if (!first) *O << ","; first = false;
    *O << "[" << F.ids[&a] << ",\"" << tystr(a.getType()) << "\"";
    if (a.hasStructRetAttr()) *O << ",\"sret\"";
    if (a.hasByValAttr()) *O << ",\"byval\"," << DL->getTypeAllocSize(a.getParamByValType());
    *O << "]";
  }
  *O << "],\"nvals\":" << F.next << ",\"blocks\":[";
  bool fb = true;
  for (auto &bb : Fn) {
    if (!fb) *O << ","; fb = false;
    *O << "{\"id\":" << F.ids[&bb] << ",\"insts\":[";
    bool fi = true;
    for (auto &I : bb) {
      if (isa<DbgInfoIntrinsic>(I)) continue;
      if (!fi) *O << ","; fi = false;
      *O << "{\"op\":\"" << I.getOpcodeName() << "\",\"ty\":\"" << tystr(I.getType()) << "\"";
      if (!I.getType()->isVoidTy()) *O << ",\"id\":" << F.ids[&I];
      if (auto *ai = dyn_cast<AllocaInst>(&I)) {
        *O << ",\"size\":" << DL->getTypeAllocSize(ai->getAllocatedType()) << ",\"n\":" << opnd(ai->getArraySize(), &F);
      } else if (auto *g = dyn_cast<GetElementPtrInst>(&I)) {
        std::string s; gepOffsets(cast<GEPOperator>(g), &F, s);
        *O << ",\"base\":" << opnd(g->getPointerOperand(), &F) << ",\"off\":[" << s << "]";
      } else if (auto *l = dyn_cast<LoadInst>(&I)) {
        *O << ",\"ptr\":" << opnd(l->getPointerOperand(), &F) << ",\"sz\":" << DL->getTypeStoreSize(l->getType());
      } else if (auto *s = dyn_cast<StoreInst>(&I)) {
        *O << ",\"val\":" << opnd(s->getValueOperand(), &F) << ",\"vty\":\"" << tystr(s->getValueOperand()->getType()) << "\",\"ptr\":" << opnd(s->getPointerOperand(), &F) << ",\"sz\":" << DL->getTypeStoreSize(s->getValueOperand()->getType());
      } else if (auto *c = dyn_cast<CmpInst>(&I)) {
        *O << ",\"pred\":\"" << CmpInst::getPredicateName(c->getPredicate()) << "\",\"a\":" << opnd(c->getOperand(0), &F) << ",\"b\":" << opnd(c->getOperand(1), &F) << ",\"oty\":\"" << tystr(c->getOperand(0)->getType()) << "\"";
      } else if (auto *p = dyn_cast<PHINode>(&I)) {
        *O << ",\"inc\":[";
        for (unsigned i = 0; i < p->getNumIncomingValues(); i++) { if (i) *O << ","; *O << "[" << opnd(p->getIncomingValue(i), &F) << "," << F.ids[p->getIncomingBlock(i)] << "]"; }
        *O << "]";
      } else if (auto *cb = dyn_cast<CallBase>(&I)) {
        *O << ",\"callee\":" << opnd(cb->getCalledOperand(), &F) << ",\"args\":[";
        for (unsigned i = 0; i < cb->arg_size(); i++) { if (i) *O << ","; *O << "[" << opnd(cb->getArgOperand(i), &F) << ",\"" << tystr(cb->getArgOperand(i)->getType()) << "\"]"; }
        *O << "]";
        if (auto *iv = dyn_cast<InvokeInst>(&I)) *O << ",\"normal\":" << F.ids[iv->getNormalDest()] << ",\"unwind\":" << F.ids[iv->getUnwindDest()];
      } else if (auto *ev = dyn_cast<ExtractValueInst>(&I)) {
        *O << ",\"agg\":" << opnd(ev->getAggregateOperand(), &F) << ",\"idx\":[";
        for (unsigned i = 0; i < ev->getNumIndices(); i++) { if (i) *O << ","; *O << ev->getIndices()[i]; }
        *O << "]";
      } else if (auto *iv = dyn_cast<InsertValueInst>(&I)) {
        *O << ",\"agg\":" << opnd(iv->getAggregateOperand(), &F) << ",\"val\":" << opnd(iv->getInsertedValueOperand(), &F) << ",\"idx\":[";
        for (unsigned i = 0; i < iv->getNumIndices(); i++) { if (i) *O << ","; *O << iv->getIndices()[i]; }
        *O << "]";
      } else if (auto *sw = dyn_cast<SwitchInst>(&I)) {
        *O << ",\"cond\":" << opnd(sw->getCondition(), &F) << ",\"default\":" << F.ids[sw->getDefaultDest()] << ",\"cases\":[";
        bool fc = true;
        for (auto &c : sw->cases()) { if (!fc) *O << ","; fc = false; *O << "[" << opnd(c.getCaseValue(), &F) << "," << F.ids[c.getCaseSuccessor()] << "]"; }
        *O << "]";
      } else if (auto *lp = dyn_cast<LandingPadInst>(&I)) {
        *O << ",\"cleanup\":" << (lp->isCleanup() ? 1 : 0) << ",\"clauses\":[";
        for (unsigned i = 0; i < lp->getNumClauses(); i++) { if (i) *O << ","; *O << "[" << (lp->isCatch(i) ? 1 : 0) << "," << opnd(lp->getClause(i), &F) << "]"; }
        *O << "]";
      } else if (auto *rmw = dyn_cast<AtomicRMWInst>(&I)) {
        *O << ",\"rmw\":\"" << AtomicRMWInst::getOperationName(rmw->getOperation()) << "\",\"ptr\":" << opnd(rmw->getPointerOperand(), &F) << ",\"val\":" << opnd(rmw->getValOperand(), &F) << ",\"sz\":" << DL->getTypeStoreSize(rmw->getType());
      } else if (auto *cx = dyn_cast<AtomicCmpXchgInst>(&I)) {
        *O << ",\"ptr\":" << opnd(cx->getPointerOperand(), &F) << ",\"cmp\":" << opnd(cx->getCompareOperand(), &F) << ",\"new\":" << opnd(cx->getNewValOperand(), &F) << ",\"sz\":" << DL->getTypeStoreSize(cx->getCompareOperand()->getType()) << ",\"vty\":\"" << tystr(cx->getCompareOperand()->getType()) << "\"";
      } else {
        *O << ",\"ops\":[";
        for (unsigned i = 0; i < I.getNumOperands(); i++) { if (i) *O << ","; *O << opnd(I.getOperand(i), &F); }
        *O << "]";
        if (I.getNumOperands()) *O << ",\"oty\":\"" << tystr(I.getOperand(0)->getType()) << "\"";
      }
      *O << "}";
    }
    *O << "]}";
  }
  *O << "]}\n";
}

int main(int argc, char **argv) {
  LLVMContext C; SMDiagnostic E;
  auto M = parseIRFile(argv[1], E, C);
  if (argc > 2) TU = argv[2];
  if (!M) { E.print("irdump", errs()); return 1; }
  DL = &M->getDataLayout();
  O = &outs();
  for (auto &G : M->globals()) {
    *O << "{\"k\":\"g\",\"name\":\"" << esc(gname(&G)) << "\",\"size\":" << DL->getTypeAllocSize(G.getValueType()) << ",\"const\":" << (G.isConstant() ? 1 : 0) << ",\"ty\":\"" << tystr(G.getValueType()) << "\"";
    if (G.hasInitializer()) *O << ",\"init\":" << constStr(G.getInitializer(), nullptr);
    *O << "}\n";
  }
  for (auto &A : M->aliases()) *O << "{\"k\":\"a\",\"name\":\"" << esc(gname(&A)) << "\",\"target\":" << constStr(A.getAliasee(), nullptr) << "}\n";
  for (auto &F : *M) { if (F.isDeclaration()) { *O << "{\"k\":\"d\",\"name\":\"" << esc(gname(&F)) << "\"}\n"; continue; } dumpFunction(F); }
  return 0;
}
