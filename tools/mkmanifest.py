#!/usr/bin/env python3
# regenerates MANIFEST.json from props/*.py metadata (props/<ID>.py defines MANIFEST dict) 
import json, os, sys, importlib, glob
HERE = os.path.dirname(os.path.dirname(os.path.abspath(__file__)))
sys.path.insert(0, HERE)
ids = ['C%02d' % i for i in range(1, 21)]
NA_DEFAULT = 'no solver-based check of this property has been built yet; nothing is claimed for it'
checks = []; na = []
import ast
def meta(pid):
    p = os.path.join(HERE, 'props', pid + '.py')
    if not os.path.exists(p): return None
    src = open(p).read()
    tree = ast.parse(src)
    for node in tree.body:
        if isinstance(node, ast.Assign) and getattr(node.targets[0], 'id', None) == 'MANIFEST':
            return ast.literal_eval(node.value)
    return None
for pid in ids:
    m = meta(pid)
    if not m or m.get('not_applicable'):
        na.append({'property_id': pid, 'reason': (m or {}).get('not_applicable', NA_DEFAULT)}); continue
    checks.append({'property_id': pid, 'quick_cmd': './check %s --tier quick' % pid, 'thorough_cmd': './check %s --tier thorough' % pid,
                   'evidence_file': 'evidence/%s.json' % pid, 'replay_cmd_template': './check %s --replay {path}' % pid, 'engine': 'cvsym',
                   'level_claimed': {'category': 'model_checking', 'text': m['level_text'], 'design_ref': m.get('design_ref', 'DESIGN.md section 5')},
                   'level_note': m['level_note'], 'technique': m['technique']})
man = {'version': 1,
       'setup_cmd': 'python3-vt tools/setup.py',
       'hooks': {'guard': 'COLVARS_VERIF', 'enable': 'none needed: harness translation units are compiled with -fno-access-control; the library sources are compiled unchanged (-DCOLVARS_VERIF is passed but guards nothing)',
                 'baseline_off_cmd': 'cmake --build /repo/_build && ctest --test-dir /repo/_build -j8 --timeout 900', 'source_commits': [], 'add_only': True},
       'engines': [{'name': 'cvsym', 'path': 'cvsym/', 'serves_properties': [c['property_id'] for c in checks],
                    'kind_free_text': 'own symbolic executor for the clang-14 LLVM IR of the real Colvars sources (Python) + z3 5.1: exact-real normal form with forward-mode AD, bit-vectors / mathematical integers, path exploration by decision replay in forked children, native replay of models'}],
       'checks': checks, 'not_applicable': na,
       'notes': 'Every check recompiles the needed translation units from /repo\'s working tree (content-addressed cache in /verif/.cache). Exit status: 0 held, 1 VIOLATION (reproduced natively), 2 infrastructure error, 3 inconclusive (solver unknown / bound exceeded); never success on timeout.'}
json.dump(man, open(os.path.join(HERE, 'MANIFEST.json'), 'w'), indent=1)
print('checks:', [c['property_id'] for c in checks], 'n/a:', len(na))
