#!/bin/bash
# usage: tools/try_mutant.sh <patch.diff> <ID> [tier]   -- applies the patch to /repo, runs the check, restores /repo
set -u
P=$1; ID=$2; TIER=${3:-quick}
cd /repo || exit 2
git apply --check "$P" || { echo "patch does not apply"; exit 2; }
git apply "$P"
cd /verif
./check $ID --tier $TIER > /tmp/try_$ID.out 2> /tmp/try_$ID.err; rc=$?
git -C /repo apply -R "$P" || git -C /repo checkout -- .
echo "rc=$rc"; grep -E "^(VIOLATION|INCONCLUSIVE|OK|KNOWN)" /tmp/try_$ID.out | cut -c1-220 | head -8; grep -E "violated|INFRA" /tmp/try_$ID.err | cut -c1-200 | head -5
