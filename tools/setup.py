#!/usr/bin/env python3-vt
# setup_cmd: build irdump and pre-compile the library to IR and to native objects (all from files on disk, offline)
import sys, os
sys.path.insert(0, os.path.dirname(os.path.dirname(os.path.abspath(__file__))))
from cvsym import build
build.ensure_irdump()
p, k, info = build.build_module([])
print('IR module', k, info['tus'], 'translation units,', info['recompiled'], 'recompiled,', info['build_s'], 's')
objs = build.native_lib()
print('native objects', len(objs))
