#!/bin/bash
# tools/run_mutants.sh [ids...]: apply every seeded change in turn, run the check of its property (quick), revert; summary in .cache/mutants.log
cd /verif
log=/verif/.cache/mutants.log
: > $log
list="$@"; [ -z "$list" ] && list=$(ls seeded | sort)
for d in $list; do
  id=${d%%_*}
  [ -f seeded/$d/patch.diff ] || continue
  if ! git -C /repo diff --quiet; then echo "ABORT: /repo has uncommitted changes before $d" >> $log; exit 1; fi
  t0=$(date +%s)
  out=$(tools/try_mutant.sh /verif/seeded/$d/patch.diff $id 2>&1)
  nv=$(echo "$out" | grep -c '^VIOLATION'); ni=$(echo "$out" | grep -c '^INCONCLUSIVE'); ok=$(echo "$out" | grep -c '^OK property')
  echo "$d violations=$nv inconclusive=$ni ok=$ok $(( $(date +%s) - t0 ))s $(echo "$out" | grep -m1 'violated:' | cut -c1-120)" >> $log
done
git -C /repo diff --quiet && echo "DONE clean" >> $log || echo "DONE /repo DIRTY" >> $log
