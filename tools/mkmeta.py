#!/usr/bin/env python3
# tools/mkmeta.py <seed dir> <check id used> <result text>: converts the agent's meta_agent.json into meta.json
import json, sys, os
d = sys.argv[1]; a = json.load(open(os.path.join(d, 'meta_agent.json')))
m = {'property': a.get('property'), 'breaks': a.get('summary') or a.get('breaks'), 'needs': a.get('needs'), 'agent_verified': a.get('verified') or a.get('agent_verified'),
     'confirmed_by_me': 'tools/try_mutant.sh patch.diff ' + sys.argv[2], 'result': sys.argv[3]}
json.dump(m, open(os.path.join(d, 'meta.json'), 'w'), indent=1); os.remove(os.path.join(d, 'meta_agent.json'))
