#!/bin/bash
# tools/run_all.sh [tier]: every check on the current tree, one after the other; summary in /verif/.cache/run_all.log
cd /verif
tier=${1:-quick}
log=/verif/.cache/run_all.$tier.log
: > $log
for id in $(python3 -c "import json; print(' '.join(sorted(p['property_id'] for p in json.load(open('/verif/MANIFEST.json'))['checks'])))" 2>/dev/null); do
  t0=$(date +%s)
  ./check $id --tier $tier > /verif/.cache/run_all.$id.out 2>&1
  rc=$?
  echo "$id rc=$rc $(( $(date +%s) - t0 ))s $(grep -c '^VIOLATION' /verif/.cache/run_all.$id.out) violations $(grep -c '^KNOWN-FINDING' /verif/.cache/run_all.$id.out) known $(grep -c '^INCONCLUSIVE' /verif/.cache/run_all.$id.out) inconclusive" >> $log
done
echo DONE >> $log
