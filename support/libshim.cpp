// shim for out-of-line libstdc++ runtime functions (unbalanced but order-correct tree)
#include <bits/stl_tree.h>
#include <bits/stl_list.h>
namespace std {
void _Rb_tree_insert_and_rebalance(const bool insert_left, _Rb_tree_node_base* x, _Rb_tree_node_base* p, _Rb_tree_node_base& header) throw() {
  x->_M_parent = p; x->_M_left = 0; x->_M_right = 0; x->_M_color = _S_red;
  if (insert_left) { p->_M_left = x; if (p == &header) { header._M_parent = x; header._M_right = x; x->_M_color = _S_black; } else if (p == header._M_left) header._M_left = x; }
  else { p->_M_right = x; if (p == header._M_right) header._M_right = x; }
}
static _Rb_tree_node_base* incr(_Rb_tree_node_base* x) {
  if (x->_M_right != 0) { x = x->_M_right; while (x->_M_left != 0) x = x->_M_left; }
  else { _Rb_tree_node_base* y = x->_M_parent; while (x == y->_M_right) { x = y; y = y->_M_parent; } if (x->_M_right != y) x = y; }
  return x;
}
_Rb_tree_node_base* _Rb_tree_increment(_Rb_tree_node_base* x) throw() { return incr(x); }
const _Rb_tree_node_base* _Rb_tree_increment(const _Rb_tree_node_base* x) throw() { return incr(const_cast<_Rb_tree_node_base*>(x)); }
_Rb_tree_node_base* _Rb_tree_decrement(_Rb_tree_node_base* x) throw() {
  if (x->_M_color == _S_red && x->_M_parent->_M_parent == x) x = x->_M_right;
  else if (x->_M_left != 0) { _Rb_tree_node_base* y = x->_M_left; while (y->_M_right != 0) y = y->_M_right; x = y; }
  else { _Rb_tree_node_base* y = x->_M_parent; while (x == y->_M_left) { x = y; y = y->_M_parent; } x = y; }
  return x;
}
_Rb_tree_node_base* _Rb_tree_rebalance_for_erase(_Rb_tree_node_base* const z, _Rb_tree_node_base& header) throw() {
  // libstdc++'s unlinking of a node without the recolouring / rotations (the shim tree is not balanced)
  _Rb_tree_node_base*& root = header._M_parent; _Rb_tree_node_base*& leftmost = header._M_left; _Rb_tree_node_base*& rightmost = header._M_right;
  _Rb_tree_node_base* y = z; _Rb_tree_node_base* x = 0;
  if (y->_M_left == 0) x = y->_M_right;
  else if (y->_M_right == 0) x = y->_M_left;
  else { y = y->_M_right; while (y->_M_left != 0) y = y->_M_left; x = y->_M_right; }
  if (y != z) {
    z->_M_left->_M_parent = y; y->_M_left = z->_M_left;
    if (y != z->_M_right) { if (x) x->_M_parent = y->_M_parent; y->_M_parent->_M_left = x; y->_M_right = z->_M_right; z->_M_right->_M_parent = y; }
    if (root == z) root = y; else if (z->_M_parent->_M_left == z) z->_M_parent->_M_left = y; else z->_M_parent->_M_right = y;
    y->_M_parent = z->_M_parent; y = z;
  } else {
    if (x) x->_M_parent = y->_M_parent;
    if (root == z) root = x; else if (z->_M_parent->_M_left == z) z->_M_parent->_M_left = x; else z->_M_parent->_M_right = x;
    if (leftmost == z) { if (z->_M_right == 0) leftmost = z->_M_parent; else { _Rb_tree_node_base* m = x; while (m->_M_left != 0) m = m->_M_left; leftmost = m; } }
    if (rightmost == z) { if (z->_M_left == 0) rightmost = z->_M_parent; else { _Rb_tree_node_base* m = x; while (m->_M_right != 0) m = m->_M_right; rightmost = m; } }
  }
  return y;
}
namespace __detail {
void _List_node_base::_M_hook(_List_node_base* const position) noexcept { this->_M_next = position; this->_M_prev = position->_M_prev; position->_M_prev->_M_next = this; position->_M_prev = this; }
void _List_node_base::_M_transfer(_List_node_base* const first, _List_node_base* const last) noexcept {
  if (this != last) {
    last->_M_prev->_M_next = this; first->_M_prev->_M_next = last; this->_M_prev->_M_next = first;
    _List_node_base* const tmp = this->_M_prev; this->_M_prev = last->_M_prev; last->_M_prev = first->_M_prev; first->_M_prev = tmp;
  }
}
void _List_node_base::swap(_List_node_base& x, _List_node_base& y) noexcept {
  if (x._M_next != &x) {
    if (y._M_next != &y) { _List_node_base* t = x._M_next; x._M_next = y._M_next; y._M_next = t; t = x._M_prev; x._M_prev = y._M_prev; y._M_prev = t; x._M_next->_M_prev = x._M_prev->_M_next = &x; y._M_next->_M_prev = y._M_prev->_M_next = &y; }
    else { y._M_next = x._M_next; y._M_prev = x._M_prev; y._M_next->_M_prev = y._M_prev->_M_next = &y; x._M_next = x._M_prev = &x; }
  } else if (y._M_next != &y) { x._M_next = y._M_next; x._M_prev = y._M_prev; x._M_next->_M_prev = x._M_prev->_M_next = &x; y._M_next = y._M_prev = &y; }
}
void _List_node_base::_M_unhook() noexcept { _List_node_base* const n = this->_M_next; _List_node_base* const p = this->_M_prev; p->_M_next = n; n->_M_prev = p; }
}
}
