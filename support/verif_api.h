// Harness API shared by the symbolic interpreter (intercepted by name) and the native replay runtime (native_rt.cpp)
#pragma once
#include <cstddef>
extern "C" {
int    verif_is_symbolic(void);
double verif_sym_double(const char *name);             // arbitrary real (exact-real reading of double)
double verif_sym_double_ad(const char *name);          // same, and derivatives with respect to it are tracked
long   verif_sym_int(const char *name, long lo, long hi); // mathematical integer in [lo, hi]
long   verif_sym_i64(const char *name);                // 64-bit vector
int    verif_sym_i32(const char *name);
unsigned char verif_sym_u8(const char *name);
int    verif_sym_bool(const char *name);
void   verif_sym_bytes(void *p, unsigned long n, const char *name);
int    verif_choice(const char *name, int n);          // forks: returns each value in [0, n)
void   verif_assume(int cond);
void   verif_assert(int cond, const char *label);
void   verif_assert_eq(double a, double b, const char *label);   // exact equality under the exact-real reading
void   verif_assert_deriv(double f, const char *var, double expected, const char *label); // d f / d var == expected
double verif_ad_seed(double value, const char *name);   // 'value' as the current value of differentiation variable 'name' (evaluation on a slice)
double verif_deriv(double f, const char *var);         // d f / d var by forward-mode differentiation of the executed code
int    verif_is_integer(double v);                 // 1 iff v is an integer (symbolic boolean in the interpreter)
void   verif_reach(const char *label);                 // vacuity witness: the path condition here must be satisfiable
void   verif_out_double(const char *name, double v);
void   verif_out_i64(const char *name, long v);
void   verif_out_str(const char *name, const char *s);
void   verif_note(const char *text);
void   verif_stop(void);
void   verif_log_accesses(int on);
const char *verif_token_int(const char *name, long lo, long hi);   // text of a symbolic integer (in-band token) to be spliced into configuration / state text
const char *verif_token_double(const char *name);                 // same for a symbolic real
double verif_logged_value(const char *marker, int *found); // number printed right after 'marker' in the latest log message containing it
int    verif_fs_exists(const char *name);                // file-system model of the interpreter (native: the real file system)
long   verif_fs_size(const char *name);
void   verif_fs_put(const char *name, const char *data, long n);
void   verif_fs_truncate(const char *name, long n);
int    verif_fs_complete(const char *name);              // 1 iff the file exists and was closed after its last (re)opening and all writes (native: exists)
void   verif_fs_fail(const char *op, int times);         // make the next calls of "rename" / "open" fail
void   verif_fs_trace_begin(void);
int    verif_fs_crash_consistent(const char *name, const char *backup);  // number of crash points of the recorded trace without a complete state
void   verif_text_equal(const char *a, long na, const char *b, long nb, const char *label);   // same words; differing words are numbers of equal value
void   verif_omp_config(int threads, int single_thread, int reverse);   // logical OpenMP threads of the interpreter (native: omp_set_num_threads)
int    verif_omp_regions(void);                                        // parallel regions executed so far (native: -1)
long   verif_param(const char *name, long dflt);       // tier-dependent bound chosen by the check driver (recorded in the evidence)
void   verif_need_module(void);                        // native runs: make sure a Colvars module + stub proxy exist (cvm::error needs them); interpreter: no-op, cvm::error is modelled
}
