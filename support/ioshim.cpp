// Probe: make libstdc++'s iostream available as IR (explicit instantiation) + minimal shim for the non-template parts
#include <sstream>
#include <istream>
#include <ostream>
#include <fstream>
#include <locale>
#include <cstring>
template class std::basic_ios<char>;
template class std::basic_streambuf<char>;
template class std::basic_istream<char>;
template class std::basic_ostream<char>;
template class std::basic_stringbuf<char>;
template class std::basic_istringstream<char>;
template class std::basic_ostringstream<char>;
template class std::basic_filebuf<char>;
template class std::basic_ofstream<char>;
template class std::basic_ifstream<char>;
template std::istream& std::getline(std::istream&, std::string&, char);
template std::istream& std::operator>>(std::istream&, char&);
template std::ostream& std::operator<<(std::ostream&, char);
template std::ostream& std::operator<<(std::ostream&, const char*);
template std::istream& std::ws(std::istream&);
template std::ostream& std::endl(std::ostream&);
template std::ostream& std::flush(std::ostream&);
template std::ostream& std::__ostream_insert(std::ostream&, const char*, std::streamsize);
template std::istream& std::istream::_M_extract(double&);
template std::istream& std::istream::_M_extract(long&);
template std::istream& std::istream::_M_extract(unsigned long&);
template std::istream& std::istream::_M_extract(long long&);
template std::istream& std::istream::_M_extract(unsigned long long&);
template std::istream& std::istream::_M_extract(bool&);
template std::ostream& std::ostream::_M_insert(double);
template std::ostream& std::ostream::_M_insert(long);
template std::ostream& std::ostream::_M_insert(unsigned long);
template std::ostream& std::ostream::_M_insert(long long);
template std::ostream& std::ostream::_M_insert(unsigned long long);
template std::ostream& std::ostream::_M_insert(bool);
template class std::num_get<char>;
template class std::num_put<char>;
template class std::__numpunct_cache<char>;

namespace std {
ios_base::ios_base() throw() : _M_precision(), _M_width(), _M_flags(), _M_exception(), _M_streambuf_state(), _M_callbacks(0), _M_word_zero(), _M_word_size(_S_local_word_size), _M_word(_M_local_word), _M_ios_locale() {}
ios_base::~ios_base() {}
void ios_base::_M_init() throw() { _M_precision = 6; _M_width = 0; _M_flags = skipws | dec; }
void ios_base::_M_call_callbacks(event) throw() {}
void ios_base::_M_dispose_callbacks() throw() {}
locale::locale() throw() : _M_impl(0) {}
locale::locale(const locale&) throw() : _M_impl(0) {}
locale::~locale() throw() {}
const locale& locale::operator=(const locale&) throw() { return *this; }
void __num_base::_S_format_float(const ios_base& io, char* fptr, char mod) throw() {
  ios_base::fmtflags flags = io.flags();
  *fptr++ = '%';
  if (flags & ios_base::showpos) *fptr++ = '+';
  if (flags & ios_base::showpoint) *fptr++ = '#';
  ios_base::fmtflags fltfield = flags & ios_base::floatfield;
  if (fltfield != (ios_base::fixed | ios_base::scientific)) { *fptr++ = '.'; *fptr++ = '*'; }
  if (mod) *fptr++ = mod;
  if (fltfield == ios_base::fixed) *fptr++ = 'f';
  else if (fltfield == ios_base::scientific) *fptr++ = (flags & ios_base::uppercase) ? 'E' : 'e';
  else if (fltfield == (ios_base::fixed | ios_base::scientific)) *fptr++ = (flags & ios_base::uppercase) ? 'A' : 'a';
  else *fptr++ = (flags & ios_base::uppercase) ? 'G' : 'g';
  *fptr = '\0';
}
}
// facet objects handed out by the interpreter's use_facet stubs
std::num_get<char> verif_num_get;
std::num_put<char> verif_num_put;
std::__numpunct_cache<char> verif_npc;
static std::ctype_base::mask verif_table[256];
extern "C" void *verif_make_ctype() {
  std::ctype<char> *c = (std::ctype<char> *) ::operator new(sizeof(std::ctype<char>));
  std::memset((void *) c, 0, sizeof(std::ctype<char>));
  for (int i = 0; i < 256; i++) {
    std::ctype_base::mask m = 0;
    if (i == ' ' || (i >= 9 && i <= 13)) m |= std::ctype_base::space;
    if (i >= '0' && i <= '9') m |= std::ctype_base::digit | std::ctype_base::xdigit;
    if (i >= 'a' && i <= 'z') m |= std::ctype_base::lower | std::ctype_base::alpha;
    if (i >= 'A' && i <= 'Z') m |= std::ctype_base::upper | std::ctype_base::alpha;
    if (i > 32 && i < 127) m |= std::ctype_base::print | std::ctype_base::graph;
    verif_table[i] = m;
    c->_M_widen[i] = (char) i; c->_M_narrow[i] = (char) i;
  }
  c->_M_table = verif_table; c->_M_widen_ok = 1; c->_M_narrow_ok = 1;
  return c;
}
extern "C" void verif_init_npc() {
  verif_npc._M_grouping = ""; verif_npc._M_grouping_size = 0; verif_npc._M_use_grouping = false;
  verif_npc._M_truename = "true"; verif_npc._M_truename_size = 4; verif_npc._M_falsename = "false"; verif_npc._M_falsename_size = 5;
  verif_npc._M_decimal_point = '.'; verif_npc._M_thousands_sep = ',';
  std::memcpy(verif_npc._M_atoms_out, "-+xX0123456789abcdef0123456789ABCDEF", 36);
  std::memcpy(verif_npc._M_atoms_in, "-+xX0123456789abcdefABCDEF", 26);
  verif_npc._M_allocated = false;
}
namespace std {
template<> basic_istream<char>& operator>>(basic_istream<char>& in, basic_string<char>& str) {
  size_t extracted = 0; ios_base::iostate err = ios_base::goodbit;
  basic_istream<char>::sentry cerb(in, false);
  if (cerb) {
    str.erase();
    const streamsize w = in.width();
    const size_t n = w > 0 ? static_cast<size_t>(w) : str.max_size();
    const ctype<char>& ct = use_facet<ctype<char> >(in.getloc());
    int c = in.rdbuf()->sgetc();
    while (extracted < n && c != char_traits<char>::eof() && !ct.is(ctype_base::space, char_traits<char>::to_char_type(c))) {
      str += char_traits<char>::to_char_type(c); ++extracted; c = in.rdbuf()->snextc();
    }
    if (c == char_traits<char>::eof()) err |= ios_base::eofbit;
    in.width(0);
  }
  if (!extracted) err |= ios_base::failbit;
  if (err) in.setstate(err);
  return in;
}
template<> basic_istream<char>& getline(basic_istream<char>& in, basic_string<char>& str, char delim) {
  size_t extracted = 0; const size_t n = str.max_size(); ios_base::iostate err = ios_base::goodbit;
  basic_istream<char>::sentry cerb(in, true);
  if (cerb) {
    str.erase();
    const int idelim = char_traits<char>::to_int_type(delim);
    int c = in.rdbuf()->sgetc();
    while (extracted < n && c != char_traits<char>::eof() && c != idelim) { str += char_traits<char>::to_char_type(c); ++extracted; c = in.rdbuf()->snextc(); }
    if (c == char_traits<char>::eof()) err |= ios_base::eofbit;
    else if (c == idelim) { ++extracted; in.rdbuf()->sbumpc(); }
    else err |= ios_base::failbit;
  }
  if (!extracted) err |= ios_base::failbit;
  if (err) in.setstate(err);
  return in;
}
}

// codecvt facet handed out for file streams: the "C" locale never converts
namespace { struct verif_codecvt : public std::codecvt<char, char, std::mbstate_t> {
  verif_codecvt() : std::codecvt<char, char, std::mbstate_t>(1) {}
  bool do_always_noconv() const throw() override { return true; }
  int do_encoding() const throw() override { return 1; }
}; }
extern "C" void *verif_make_codecvt() { return new verif_codecvt(); }
