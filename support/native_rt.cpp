// Native runtime for harness replay and differential runs: implements verif_api.h on concrete inputs.
// usage: harness_exe <inputs-file|-> fn1 [fn2 ...]      (functions are called in order; looked up with dlsym)
// env: VERIF_SEED (default values of inputs not in the file), VERIF_PERTURB=name:delta, VERIF_DERIVS=file
#include "verif_api.h"
#include "colvarmodule.h"
#include "colvarproxy.h"
#include "colvarproxy_stub.h"
#include <cstdio>
#include <cstdlib>
#include <cstring>
#include <cmath>
#include <map>
#include <string>
#include <vector>
#include <dlfcn.h>
#include <sstream>
#include <string>
#include <cmath>
#include <unistd.h>

static std::map<std::string, std::string> inputs;
static std::map<std::string, double> derivs;   // "idx:var" -> value
static unsigned long seed = 1;
static std::string perturb_name; static double perturb_delta = 0.0;
static int fails = 0; static int deriv_site = 0;

static unsigned long hash_name(const char *s) {
  unsigned long h = 1469598103934665603UL ^ (seed * 0x9E3779B97F4A7C15UL);
  for (; *s; s++) { h ^= (unsigned char) *s; h *= 1099511628211UL; }
  h ^= h >> 29; h *= 0xBF58476D1CE4E5B9UL; h ^= h >> 32;
  return h;
}
static bool has(const char *n) { return inputs.find(n) != inputs.end(); }

extern "C" {
int verif_is_symbolic(void) { return 0; }
double verif_sym_double(const char *name) {
  double v;
  if (has(name)) v = strtod(inputs[name].c_str(), nullptr);
  else v = ((long) (hash_name(name) % 257) - 128) / 64.0 + 0.0078125;   // dyadic grid in (-2, 2), never exactly 0
  if (perturb_name == name) v += perturb_delta;
  return v;
}
double verif_sym_double_ad(const char *name) { return verif_sym_double(name); }
double verif_ad_seed(double value, const char *name) { return perturb_name == name ? value + perturb_delta : value; }
long verif_sym_int(const char *name, long lo, long hi) {
  if (has(name)) return strtol(inputs[name].c_str(), nullptr, 10);
  unsigned long span = (unsigned long) (hi - lo) + 1; if (span == 0 || span > 16) span = 16;
  return lo + (long) (hash_name(name) % span);
}
long verif_sym_i64(const char *name) { if (has(name)) return (long) strtoull(inputs[name].c_str(), nullptr, 10); return (long) (hash_name(name) % 7); }
int verif_sym_i32(const char *name) { if (has(name)) return (int) strtoull(inputs[name].c_str(), nullptr, 10); return (int) (hash_name(name) % 7); }
unsigned char verif_sym_u8(const char *name) { if (has(name)) return (unsigned char) strtoul(inputs[name].c_str(), nullptr, 10); return (unsigned char) (hash_name(name) & 255); }
int verif_sym_bool(const char *name) { if (has(name)) return atoi(inputs[name].c_str()) ? 1 : 0; return (int) (hash_name(name) & 1); }
void verif_sym_bytes(void *p, unsigned long n, const char *name) {
  for (unsigned long i = 0; i < n; i++) { std::string k = std::string(name) + "_" + std::to_string(i); ((unsigned char *) p)[i] = verif_sym_u8(k.c_str()); }
}
int verif_choice(const char *name, int n) { if (has(name)) return atoi(inputs[name].c_str()); return (int) (hash_name(name) % (unsigned long) n); }
void verif_assume(int cond) { if (!cond) { printf("ASSUME-FALSE\n"); } }   // replayed models satisfy the assumptions exactly, natively only up to rounding
void verif_assert(int cond, const char *label) { printf("ASSERT %s %s\n", label, cond ? "ok" : "FAIL"); if (!cond) fails++; }
void verif_assert_eq(double a, double b, const char *label) {
  double m = fmax(1.0, fmax(fabs(a), fabs(b)));
  bool ok = (a == b) || fabs(a - b) <= 1e-6 * m || (a != a && b != b);
  printf("ASSERT %s %s %.17g %.17g\n", label, ok ? "ok" : "FAIL", a, b); if (!ok) fails++;
}
void verif_assert_deriv(double f, const char *var, double expected, const char *label) { printf("DERIV %s %s %.17g %.17g\n", label, var, f, expected); }
double verif_deriv(double f, const char *var) {
  int idx = deriv_site++;
  printf("DERIVSITE %d %s %.17g\n", idx, var, f);
  std::string k = std::to_string(idx) + ":" + var;
  auto it = derivs.find(k); return it == derivs.end() ? 0.0 : it->second;
}
int verif_is_integer(double v) { return fabs(v - nearbyint(v)) <= 1e-7 * fmax(1.0, fabs(v)) ? 1 : 0; }
void verif_reach(const char *label) { printf("REACH %s\n", label); }
void verif_out_double(const char *name, double v) { printf("OUT %s %.17g\n", name, v); }
void verif_out_i64(const char *name, long v) { printf("OUT %s %ld\n", name, v); }
void verif_out_str(const char *name, const char *s) { printf("OUTS %s %s\n", name, s); }
void verif_note(const char *text) { }
void verif_stop(void) { fflush(stdout); exit(fails ? 1 : 0); }
void verif_log_accesses(int on) { }
double verif_logged_value(const char *marker, int *found) {
  // native: the stub proxy writes the log to stdout, which also carries this runtime's protocol; logged values are not replayed natively
  *found = 0; return 0.0;
}
static std::vector<std::string> &tt() { static std::vector<std::string> *v = new std::vector<std::string>(); return *v; }
#define token_texts tt()
const char *verif_token_int(const char *name, long lo, long hi) { token_texts.push_back(std::to_string(verif_sym_int(name, lo, hi))); return token_texts.back().c_str(); }
const char *verif_token_double(const char *name) { char b[64]; snprintf(b, 64, "%.17g", verif_sym_double(name)); token_texts.push_back(b); return token_texts.back().c_str(); }
int verif_fs_exists(const char *name) { FILE *f = fopen(name, "rb"); if (f) { fclose(f); return 1; } return 0; }
long verif_fs_size(const char *name) { FILE *f = fopen(name, "rb"); if (!f) return 0; fseek(f, 0, SEEK_END); long n = ftell(f); fclose(f); return n; }
void verif_fs_put(const char *name, const char *data, long n) { FILE *f = fopen(name, "wb"); if (f) { fwrite(data, 1, n, f); fclose(f); } }
void verif_fs_truncate(const char *name, long n) { if (truncate(name, n)) {} }
int verif_fs_complete(const char *name) { return verif_fs_exists(name); }
void verif_fs_fail(const char *op, int times) { }
void verif_fs_trace_begin(void) { }
int verif_fs_crash_consistent(const char *name, const char *backup) { return 0; }   // crash points are examined on the interpreter's operation trace only
void verif_text_equal(const char *a, long na, const char *b, long nb, const char *label) {
  std::istringstream ia(std::string(a, na)), ib(std::string(b, nb));
  std::string wa, wb; bool same = true, nums = true;
  while (true) {
    bool ga = bool(ia >> wa), gb = bool(ib >> wb);
    if (ga != gb) { same = false; break; }
    if (!ga) break;
    if (wa == wb) continue;
    char *ea = nullptr, *eb = nullptr;
    double va = strtod(wa.c_str(), &ea), vb = strtod(wb.c_str(), &eb);
    if (*ea || *eb || ea == wa.c_str() || eb == wb.c_str()) { same = false; break; }
    if (!(fabs(va - vb) <= 1e-9 * (1.0 + fabs(va) + fabs(vb)))) nums = false;
  }
  printf("ASSERT %s.same_structure %s\n", label, same ? "ok" : "FAIL");
  printf("ASSERT %s.numbers %s\n", label, nums ? "ok" : "FAIL");
}
#ifdef _OPENMP
#include <omp.h>
void verif_omp_config(int threads, int single_thread, int reverse) { omp_set_num_threads(threads > 4 ? 4 : threads); }
#else
void verif_omp_config(int threads, int single_thread, int reverse) { }
#endif
int verif_omp_regions(void) { return -1; }
long verif_param(const char *name, long dflt) { std::string k = std::string("param.") + name; if (has(k.c_str())) return strtol(inputs[k].c_str(), nullptr, 10); return dflt; }
void verif_need_module(void) { static colvarproxy_stub *p = nullptr; if (!p && !cvm::main()) p = new colvarproxy_stub(); }
}

static void load_kv(const char *path, std::map<std::string, std::string> &m) {
  FILE *f = fopen(path, "r"); if (!f) { fprintf(stderr, "cannot open %s\n", path); exit(2); }
  char k[512], v[512];
  while (fscanf(f, "%511s %511s", k, v) == 2) m[k] = v;
  fclose(f);
}

int main(int argc, char **argv) {
  if (argc < 3) { fprintf(stderr, "usage: %s inputs|- fn...\n", argv[0]); return 2; }
  if (strcmp(argv[1], "-")) load_kv(argv[1], inputs);
  if (const char *s = getenv("VERIF_SEED")) seed = strtoul(s, nullptr, 10);
  if (const char *p = getenv("VERIF_PERTURB")) { std::string s(p); size_t c = s.rfind(':'); perturb_name = s.substr(0, c); perturb_delta = strtod(s.c_str() + c + 1, nullptr); }
  if (const char *d = getenv("VERIF_DERIVS")) { std::map<std::string, std::string> m; load_kv(d, m); for (auto &kv : m) derivs[kv.first] = strtod(kv.second.c_str(), nullptr); }
  for (int i = 2; i < argc; i++) {
    void (*fn)(void) = (void (*)(void)) dlsym(RTLD_DEFAULT, argv[i]);
    if (!fn) { fprintf(stderr, "no such harness function %s\n", argv[i]); return 2; }
    fn();
  }
  fflush(stdout);
  return fails ? 1 : 0;
}
