// makes clang emit IR for the out-of-line members of std::string (real libstdc++ code)
#include <string>
#include <vector>
template class std::basic_string<char>;
