// C08: bias contributions superpose; multiple-time-step scaling conserves impulse
#include "e2e.h"
extern "C" void h_c08_setup() {
  e2e_make(4,
    "units real\ncolvarsTrajFrequency 0\n"
    "colvar {\n name d\n width 0.5\n lowerBoundary 1.0\n upperBoundary 3.0\n distance {\n group1 { atomNumbers 1 }\n group2 { atomNumbers 2 }\n }\n}\n"
    "colvar {\n name z\n width 0.25\n distanceZ {\n main { atomNumbers 2 }\n ref { atomNumbers 3 }\n }\n}\n"
    "harmonic {\n name h1\n colvars d\n centers 2.5\n forceConstant 3.0\n}\n"
    "harmonic {\n name h2\n colvars d z\n centers 1.5 0.5\n forceConstant 2.0\n timeStepFactor 2\n}\n"
    "harmonicWalls {\n name w3\n colvars z\n upperWalls 0.25\n forceConstant 4.0\n timeStepFactor 3\n}\n"
    "linear {\n name l1\n colvars z\n centers 0.0\n forceConstant 1.5\n}\n"
    "histogram {\n name hist\n colvars d\n}\n");
}
static void place(cvm::real x, cvm::real zz) { e2e_pos(0, 0.0, 0.0, 0.0); e2e_pos(1, x, 0.0, 0.0); e2e_pos(2, x, 0.0, -zz); e2e_pos(3, 9.0, 9.0, 9.0); }

static void check_step(long t, cvm::real x, cvm::real zz) {
  colvar *d = e2e_cv("d"), *z = e2e_cv("z");
  verif_assert_eq(d->value().real_value, x, "value.d"); verif_assert_eq(z->value().real_value, zz, "value.z");
  int a2 = ((t % 2) == 0), a3 = ((t % 3) == 0);
  verif_assert(e2e_bias("h1")->is_enabled() != 0, "awake.factor1_always");
  verif_assert((e2e_bias("h2")->is_enabled() != 0) == (a2 != 0), "awake.factor2_iff_even_step");
  verif_assert((e2e_bias("w3")->is_enabled() != 0) == (a3 != 0), "awake.factor3_iff_multiple_of_3");
  // instantaneous forces and energies of each bias (closed forms, cf. C06)
  cvm::real f_h1 = -3.0 * (x - 2.5) / 0.25, e_h1 = 0.5 * 3.0 * (x - 2.5) * (x - 2.5) / 0.25;
  cvm::real f_h2d = -2.0 * (x - 1.5) / 0.25, f_h2z = -2.0 * (zz - 0.5) / 0.0625;
  cvm::real e_h2 = 0.5 * 2.0 * ((x - 1.5) * (x - 1.5) / 0.25 + (zz - 0.5) * (zz - 0.5) / 0.0625);
  cvm::real over = zz > 0.25 ? zz - 0.25 : 0.0;
  cvm::real f_w3 = -4.0 * over / 0.0625, e_w3 = 0.5 * 4.0 * over * over / 0.0625;
  cvm::real f_l1 = -1.5 / 0.25, e_l1 = 1.5 * zz / 0.25;
  // force on each variable: sum over awake, force-applying biases of (time-step factor) x (instantaneous force)
  cvm::real fd = f_h1 + (a2 ? 2.0 * f_h2d : 0.0);
  cvm::real fz = (a2 ? 2.0 * f_h2z : 0.0) + (a3 ? 3.0 * f_w3 : 0.0) + f_l1;
  verif_assert_eq(d->fb.real_value + d->fb_actual.real_value, fd, "force.variable_d_is_sum_of_scaled_bias_forces");
  verif_assert_eq(z->fb.real_value + z->fb_actual.real_value, fz, "force.variable_z_is_sum_of_scaled_bias_forces");
  // reported energy: sum over awake biases; the histogram and sleeping biases contribute nothing
  verif_assert_eq(px->colvars->total_bias_energy, e_h1 + (a2 ? e_h2 : 0.0) + (a3 ? e_w3 : 0.0) + e_l1, "energy.sum_of_awake_biases");
  // atoms: atom 1 belongs to d only, atom 2 to both (+1 from d, +1 from z), atom 3 to z only, atom 4 to nothing
  verif_assert_eq(px->atoms_new_colvar_forces[0].x, -fd, "atoms.atom1");
  verif_assert_eq(px->atoms_new_colvar_forces[1].x, fd, "atoms.atom2.x"); verif_assert_eq(px->atoms_new_colvar_forces[1].z, fz, "atoms.atom2.z");
  verif_assert_eq(px->atoms_new_colvar_forces[2].z, -fz, "atoms.atom3");
  verif_assert_eq(px->atoms_new_colvar_forces[3].norm2(), 0.0, "atoms.uninvolved_atom");
}

// a later step of a run in which every bias has already been through a wake/sleep cycle
extern "C" void h_c08_step() {
  place(2.0, 0.125);
  px->colvars->it = 6; px->colvars->it_restart = 0;                       // step 6: every factor divides it
  verif_assert(e2e_step() == COLVARS_OK, "stepA.ok");
  for (int i = 0; i < 4; i++) px->atoms_new_colvar_forces[i] = cvm::rvector(0.0, 0.0, 0.0);
  long t = verif_sym_int("t", 7, 30);
  cvm::real x = verif_sym_double("x"), zz = verif_sym_double("z");
  verif_assume(x > 0.0 && x < 100.0 && zz > -100.0 && zz < 100.0);
  place(x, zz);
  px->colvars->it = t;
  verif_reach("step");
  verif_assert(e2e_step() == COLVARS_OK, "stepB.ok");
  check_step(t, x, zz);
}

// the first step of a run that starts at an arbitrary step (e.g. after a restart)
extern "C" void h_c08_first_step() {
  long t = verif_sym_int("t", 0, 30);
  cvm::real x = verif_sym_double("x"), zz = verif_sym_double("z");
  verif_assume(x > 0.0 && x < 100.0 && zz > -100.0 && zz < 100.0);
  place(x, zz);
  px->colvars->it = t; px->colvars->it_restart = t;
  verif_reach("first_step");
  verif_assert(e2e_step() == COLVARS_OK, "first.ok");
  check_step(t, x, zz);
}

// ... and the step after it
extern "C" void h_c08_second_step() {
  long t = verif_sym_int("t", 0, 30);
  place(2.0, 0.125);
  px->colvars->it = t; px->colvars->it_restart = t;
  verif_assert(e2e_step() == COLVARS_OK, "first.ok");
  for (int i = 0; i < 4; i++) px->atoms_new_colvar_forces[i] = cvm::rvector(0.0, 0.0, 0.0);
  cvm::real x = verif_sym_double("x"), zz = verif_sym_double("z");
  verif_assume(x > 0.0 && x < 100.0 && zz > -100.0 && zz < 100.0);
  place(x, zz);
  px->colvars->it = t + 1;
  verif_reach("second_step");
  verif_assert(e2e_step() == COLVARS_OK, "second.ok");
  check_step(t + 1, x, zz);
}
