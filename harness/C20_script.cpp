// C20: the scripting interface is total and agrees with the engine-side view
#include "e2e.h"
#include <sstream>
#include <cstring>
#include <cstdlib>

static colvarscript *sc = nullptr;
static const char *CONF =
  "units real\ncolvarsTrajFrequency 0\n"
  "colvar {\n name d\n width 0.5\n lowerBoundary 0.0\n upperBoundary 4.0\n distance {\n group1 { atomNumbers 1 }\n group2 { atomNumbers 2 }\n }\n}\n"
  "colvar {\n name r\n distanceVec {\n group1 { atomNumbers 3 }\n group2 { atomNumbers 4 }\n }\n}\n"
  "harmonic {\n name h\n colvars d\n centers 2.0\n forceConstant 2.0\n}\n"
  "histogram {\n name hg\n colvars d\n}\n";

static void place(cvm::real x, cvm::real a, cvm::real b, cvm::real c) {
  e2e_pos(0, 0.0, 0.0, 0.0); e2e_pos(1, x, 0.0, 0.0); e2e_pos(2, 0.0, 1.0, 0.0); e2e_pos(3, a, 1.0 + b, c);
}
extern "C" void h_c20_setup() {
  e2e_make(4, CONF);
  sc = px->script = new colvarscript(px, px->colvars);
  place(1.5, 0.5, 0.25, -0.75);
  px->colvars->it = px->colvars->it_restart = 0;
  px->colvars->calc();
}
// the argument vector is allocated with exactly objc entries and every word with exactly its length: any over-read is an out-of-bounds access
static int run_words(int n, const char *const *w) {
  unsigned char **objv = (unsigned char **) malloc(n > 0 ? n * sizeof(unsigned char *) : 1);
  for (int i = 0; i < n; i++) { size_t l = strlen(w[i]); objv[i] = (unsigned char *) malloc(l + 1); memcpy(objv[i], w[i], l + 1); }
  int r = sc->run(n, objv);
  for (int i = 0; i < n; i++) free(objv[i]);
  free(objv);
  return r;
}
static int run1(const char *a) { const char *w[2] = {"cv", a}; return run_words(2, w); }
static int run_obj(const char *kind, const char *name, const char *sub, const char *arg = nullptr) {
  const char *w[5] = {"cv", kind, name, sub, arg}; return run_words(arg ? 5 : 4, w);
}
static void still_usable(const char *label) {
  px->colvars->clear_error();
  verif_assert(run1("version") == COLVARS_OK && sc->str_result() == std::string(COLVARS_VERSION), label);
  place(1.75, 0.5, 0.25, -0.75);
  px->colvars->it = px->colvars->it + 1;
  px->colvars->calc();
  px->colvars->clear_error();
  verif_assert(run1("getenergy") == COLVARS_OK, label);
}

// ---- totality: every registered command, every argument count from 0 to max+1, four kinds of argument words -----------------------------
static const char *POOL[4][3] = { {"1.5", "2.5", "-1"}, {"", "", ""}, {"nonexistent", "{ }", "zz\"q"}, {"d", "forceConstant", "1.0"} };
extern "C" void h_c20_total() {
  int k = verif_choice("command", (int) colvarscript::cv_n_commands);
  const char *fname = sc->get_command_names()[k];
  int nmax = sc->get_command_n_args_max(fname);
  int nargs = verif_choice("nargs", nmax + 2);
  int ak = verif_choice("argkind", 4);
  // thorough: the kind of the second argument is chosen independently of the first
  int ak2 = verif_param("independent_args", 0) && nargs >= 2 ? verif_choice("argkind2", 4) : ak;
  verif_reach("total");
  const char *w[10]; int n = 0;
  w[n++] = "cv";
  if (strncmp(fname, "cv_", 3) == 0) w[n++] = fname + 3;
  else if (strncmp(fname, "colvar_", 7) == 0) { w[n++] = "colvar"; w[n++] = "d"; w[n++] = fname + 7; }
  else { w[n++] = "bias"; w[n++] = (k & 1) ? "hg" : "h"; w[n++] = fname + 5; }
  for (int i = 0; i < nargs && n < 10; i++) w[n++] = POOL[i == 1 ? ak2 : ak][i % 3];
  int r = run_words(n, w);
  verif_out_i64("ret", r);
  // a command line with too few or too many arguments is an error, never an action
  int nmin = sc->get_command_n_args_min(fname);
  if (nargs < nmin || nargs > nmax) verif_assert(r != COLVARS_OK, "total.wrong_arg_count_rejected");
  still_usable("total.module_usable");
}
// truncated and unknown command lines
extern "C" void h_c20_truncated() {
  static const char *L[10][4] = { {nullptr}, {"cv"}, {"cv", "colvar"}, {"cv", "colvar", "d"}, {"cv", "bias"}, {"cv", "bias", "h"}, {"cv", "bias", "nonexistent"},
                                  {"cv", "colvar", "nonexistent"}, {"cv", "nosuchcommand"}, {"cv", ""} };
  static const int N[10] = {0, 1, 2, 3, 2, 3, 3, 3, 2, 2};
  int k = verif_choice("line", 10);
  verif_reach("truncated");
  int r = run_words(N[k], L[k]);
  verif_assert(r != COLVARS_OK, "truncated.is_error");
  still_usable("truncated.module_usable");
}
// unknown sub-commands / object names with arguments
extern "C" void h_c20_unknown() {
  static const char *L[6][5] = { {"cv", "colvar", "d", "nosuch", "1"}, {"cv", "bias", "h", "nosuch", "1"}, {"cv", "colvar", "nonexistent", "value", "1"},
                                 {"cv", "bias", "nonexistent", "energy", "1"}, {"cv", "colvar", "nonexistent", "help", "value"}, {"cv", "bias", "nonexistent", "help", "energy"} };
  int k = verif_choice("line", 6), n = 4 + verif_choice("extra", 2);
  verif_reach("unknown");
  run_words(n, L[k]);
  still_usable("unknown.module_usable");
}

// ---- agreement: script queries return the numbers the module holds and hands to the engine ------------------------------------------------
static bool numbers(std::string s, std::vector<cvm::real> &out) {
  for (size_t i = 0; i < s.size(); i++) if (s[i] == '(' || s[i] == ')' || s[i] == ',' || s[i] == '{' || s[i] == '}') s[i] = ' ';
  std::istringstream is(s); cvm::real x;
  while (is >> x) out.push_back(x);
  return is.eof();
}
extern "C" void h_c20_queries() {
  cvm::real x = verif_sym_double("x"); verif_assume(x > 0.5 && x < 3.5);
  cvm::real a = verif_sym_double("a"), b = verif_sym_double("b"), c = verif_sym_double("c");
  place(x, a, b, c);
  px->colvars->it = 1;
  { const char *w[6] = {"cv", "colvar", "d", "set", "collect_gradient", "1"}; verif_assert(run_words(6, w) == COLVARS_OK, "queries.set_feature_ok"); }
  int err = px->colvars->calc_colvars(); err |= px->colvars->calc_biases(); err |= px->colvars->update_colvar_forces();
  verif_assert(err == COLVARS_OK, "queries.step_ok");
  verif_reach("queries");
  colvar *d = e2e_cv("d"), *r = e2e_cv("r");
  std::vector<cvm::real> v;
  verif_assert(run_obj("colvar", "d", "value") == COLVARS_OK && numbers(sc->str_result(), v) && v.size() == 1, "queries.value_parses");
  if (v.size() == 1) verif_assert_eq(v[0], d->value().real_value, "queries.colvar_value");
  v.clear();
  verif_assert(run_obj("colvar", "r", "value") == COLVARS_OK && numbers(sc->str_result(), v) && v.size() == 3, "queries.vector_parses");
  if (v.size() == 3) for (int k = 0; k < 3; k++) verif_assert_eq(v[k], r->value().rvector_value[k], "queries.vector_value");
  v.clear();
  verif_assert(run_obj("colvar", "d", "getappliedforce") == COLVARS_OK && numbers(sc->str_result(), v) && v.size() == 1, "queries.applied_force_parses");
  if (v.size() == 1) verif_assert_eq(v[0], d->applied_force().real_value, "queries.applied_force");
  v.clear();
  verif_assert(run_obj("bias", "h", "energy") == COLVARS_OK && numbers(sc->str_result(), v) && v.size() == 1, "queries.bias_energy_parses");
  if (v.size() == 1) verif_assert_eq(v[0], e2e_bias("h")->get_energy(), "queries.bias_energy");
  v.clear();
  verif_assert(run1("getenergy") == COLVARS_OK && numbers(sc->str_result(), v) && v.size() == 1, "queries.total_energy_parses");
  if (v.size() == 1) verif_assert_eq(v[0], px->colvars->total_bias_energy, "queries.total_energy");
  v.clear();
  // what the engine receives
  verif_assert(run1("getatomappliedforces") == COLVARS_OK && numbers(sc->str_result(), v) && v.size() == 12, "queries.atom_forces_parse");
  if (v.size() == 12) for (int i = 0; i < 4; i++) for (int k = 0; k < 3; k++) verif_assert_eq(v[3 * i + k], px->atoms_new_colvar_forces[i][k], "queries.atom_applied_forces");
  v.clear();
  verif_assert(run1("getatompositions") == COLVARS_OK && numbers(sc->str_result(), v) && v.size() == 12, "queries.atom_positions_parse");
  if (v.size() == 12) for (int i = 0; i < 4; i++) for (int k = 0; k < 3; k++) verif_assert_eq(v[3 * i + k], px->atoms_positions[i][k], "queries.atom_positions");
  v.clear();
  verif_assert(run1("getatomids") == COLVARS_OK && numbers(sc->str_result(), v) && v.size() == 4, "queries.atom_ids_parse");
  if (v.size() == 4) for (int i = 0; i < 4; i++) verif_assert(v[i] == (cvm::real) px->atoms_ids[i], "queries.atom_ids");
  v.clear();
  verif_assert(run_obj("colvar", "d", "getgradients") == COLVARS_OK && numbers(sc->str_result(), v) && v.size() == 6, "queries.gradients_parse");
  // distance between atoms 1 and 2 on the x axis: gradients -1 and +1 along x
  if (v.size() == 6) { verif_assert_eq(v[0], -1.0, "queries.gradients"); verif_assert_eq(v[3], 1.0, "queries.gradients"); verif_assert_eq(v[1] + v[2] + v[4] + v[5], 0.0, "queries.gradients"); }
  v.clear();
  verif_assert(run1("getstepabsolute") == COLVARS_OK && numbers(sc->str_result(), v) && v.size() == 1 && v[0] == 1.0, "queries.step");
}

// ---- script-driven actions have the effect of the equivalent direct path -------------------------------------------------------------------
static const char *CONF_EL =
  "units real\ncolvarsTrajFrequency 0\n"
  "colvar {\n name d\n width 0.5\n extendedLagrangian on\n extendedTemp 300.0\n extendedFluctuation 0.25\n extendedTimeConstant 200.0\n extendedLangevinDamping 0.0\n distance {\n group1 { atomNumbers 1 }\n group2 { atomNumbers 2 }\n }\n}\n"
  "colvar {\n name p\n width 0.5\n distance {\n group1 { atomNumbers 3 }\n group2 { atomNumbers 4 }\n }\n}\n"
  "harmonic {\n name h\n colvars d p\n centers 2.0 1.0\n forceConstant 2.0\n}\n";
extern "C" void h_c20_setup_actions() {
  px = new colvarproxy_stub();
  for (int i = 0; i < 4; i++) { px->init_atom(i + 1); px->atoms_masses[i] = E2E_MASS[i]; }
  px->b_simulation_running = true;
  sc = px->script = new colvarscript(px, px->colvars);
}
struct snap { cvm::real f[4][3], xd, fd, fp, E; };
static void two_steps(bool by_script, cvm::real x0, cvm::real x1, cvm::real y, cvm::real F, cvm::real G, const char *Fs, const char *Gs, snap &S) {
  px->colvars->it = px->colvars->it_restart = 0;
  place(x0, 0.0, y, 0.0);
  px->colvars->calc();
  px->colvars->it = 1;
  place(x1, 0.0, y, 0.0);
  px->colvars->calc_colvars(); px->colvars->calc_biases();
  if (by_script) {
    verif_assert(run_obj("colvar", "d", "addforce", Fs) == COLVARS_OK, "actions.addforce_ok");
    verif_assert(run_obj("colvar", "p", "addforce", Gs) == COLVARS_OK, "actions.addforce_ok");
  } else {
    colvarvalue fv(F); e2e_cv("d")->enable(colvardeps::f_cv_apply_force); e2e_cv("d")->add_bias_force(fv);
    colvarvalue gv(G); e2e_cv("p")->enable(colvardeps::f_cv_apply_force); e2e_cv("p")->add_bias_force(gv);
  }
  px->colvars->update_colvar_forces();
  for (int i = 0; i < 4; i++) for (int k = 0; k < 3; k++) S.f[i][k] = px->atoms_new_colvar_forces[i][k];
  S.xd = e2e_cv("d")->value().real_value; S.fd = e2e_cv("d")->applied_force().real_value; S.fp = e2e_cv("p")->applied_force().real_value;
  S.E = px->colvars->total_bias_energy;
}
extern "C" void h_c20_actions() {
  cvm::real x0 = verif_sym_double("x0"), x1 = verif_sym_double("x1"), y = verif_sym_double("y");
  verif_assume(x0 > 0.5 && x0 < 3.5 && x1 > 0.5 && x1 < 3.5 && y > 0.25 && y < 3.0);
  const char *Fs = verif_token_double("F"), *Gs = verif_token_double("G");
  cvm::real F = verif_sym_double("F"), G = verif_sym_double("G");
  // configuration given through the script command vs. read directly
  const char *w[3] = {"cv", "config", CONF_EL};
  verif_assert(run_words(3, w) == COLVARS_OK, "actions.config_by_script_ok");
  verif_reach("actions");
  snap A, B;
  two_steps(true, x0, x1, y, F, G, Fs, Gs, A);
  verif_assert(run1("reset") == COLVARS_OK, "actions.reset_ok");
  verif_assert(px->colvars->variables()->size() == 0 && px->colvars->biases.size() == 0, "actions.reset_empties");
  verif_assert(px->colvars->read_config_string(std::string(CONF_EL)) == COLVARS_OK, "actions.config_direct_ok");
  two_steps(false, x0, x1, y, F, G, Fs, Gs, B);
  for (int i = 0; i < 4; i++) for (int k = 0; k < 3; k++) verif_assert_eq(A.f[i][k], B.f[i][k], "actions.atom_forces_equal");
  verif_assert_eq(A.xd, B.xd, "actions.extended_value_equal");
  verif_assert_eq(A.fd, B.fd, "actions.applied_force_equal");
  verif_assert_eq(A.fp, B.fp, "actions.applied_force_equal");
  verif_assert_eq(A.E, B.E, "actions.energy_equal");
  verif_out_double("xd", A.xd);
}
