// C11 (binary stream part): every value type is read back exactly as written; damaged buffers never crash
#include "colvarmodule.h"
#include "colvartypes.h"
#include "colvarvalue.h"
#include "colvars_memstream.h"
#include "verif_api.h"

static void sym_fill(void *p, size_t n, const char *name) { verif_sym_bytes(p, n, name); }

// ---- (c) round trips ----------------------------------------------------------------------------------------------
template <typename T> static void rt_object(const char *tag, const char *l_len, const char *l_ok, const char *l_val, const char *l_end) {
  T v; sym_fill(&v, sizeof(T), "v");
  cvm::memory_stream os;
  os << v;
  verif_reach(tag);
  verif_assert(bool(os), "write.ok");
  verif_assert(os.length() == sizeof(T), l_len);
  cvm::memory_stream is(os.length(), os.output_buffer());
  T w; std::memset(&w, 0, sizeof(T));
  is >> w;
  verif_assert(bool(is), l_ok);
  verif_assert(std::memcmp(&v, &w, sizeof(T)) == 0, l_val);
  verif_assert(is.tellg() == os.length(), l_end);
  T z; is >> z;
  verif_assert(!bool(is), "read.past_end_fails");
}
extern "C" void h_c11_rt_char() { rt_object<char>("rt.char", "char.length", "char.read_ok", "char.value", "char.consumed"); }
extern "C" void h_c11_rt_int() { rt_object<int>("rt.int", "int.length", "int.read_ok", "int.value", "int.consumed"); }
extern "C" void h_c11_rt_size_t() { rt_object<size_t>("rt.size_t", "size_t.length", "size_t.read_ok", "size_t.value", "size_t.consumed"); }
extern "C" void h_c11_rt_long() { rt_object<long long>("rt.long", "long.length", "long.read_ok", "long.value", "long.consumed"); }
extern "C" void h_c11_rt_double() { rt_object<double>("rt.double", "double.length", "double.read_ok", "double.value", "double.consumed"); }
extern "C" void h_c11_rt_rvector() { rt_object<cvm::rvector>("rt.rvector", "rvector.length", "rvector.read_ok", "rvector.value", "rvector.consumed"); }

template <typename T> static void rt_vector(const char *tag, const char *l_len, const char *l_ok, const char *l_size, const char *l_val, const char *l_next) {
  int n = verif_choice("n", 4);
  std::vector<T> v(n);
  if (n) sym_fill(v.data(), n * sizeof(T), "v");
  size_t trailer = 0; sym_fill(&trailer, sizeof(size_t), "t");
  cvm::memory_stream os;
  os << v;
  os << trailer;                       // an object written after the vector must still be found after it
  verif_reach(tag);
  verif_assert(bool(os), "write.ok");
  verif_assert(os.length() == sizeof(size_t) + n * sizeof(T) + sizeof(size_t), l_len);
  cvm::memory_stream is(os.length(), os.output_buffer());
  std::vector<T> w; size_t t2 = 0;
  is >> w;
  verif_assert(bool(is), l_ok);
  verif_assert(w.size() == (size_t) n, l_size);
  verif_assert(w.size() != (size_t) n || n == 0 || std::memcmp(v.data(), w.data(), n * sizeof(T)) == 0, l_val);
  is >> t2;
  verif_assert(bool(is) && t2 == trailer, l_next);
}
extern "C" void h_c11_rtv_char() { rt_vector<char>("rtv.char", "vchar.length", "vchar.read_ok", "vchar.size", "vchar.value", "vchar.next_object"); }
extern "C" void h_c11_rtv_int() { rt_vector<int>("rtv.int", "vint.length", "vint.read_ok", "vint.size", "vint.value", "vint.next_object"); }
extern "C" void h_c11_rtv_size_t() { rt_vector<size_t>("rtv.size_t", "vsize_t.length", "vsize_t.read_ok", "vsize_t.size", "vsize_t.value", "vsize_t.next_object"); }
extern "C" void h_c11_rtv_double() { rt_vector<double>("rtv.double", "vdouble.length", "vdouble.read_ok", "vdouble.size", "vdouble.value", "vdouble.next_object"); }
extern "C" void h_c11_rtv_rvector() { rt_vector<cvm::rvector>("rtv.rvector", "vrvector.length", "vrvector.read_ok", "vrvector.size", "vrvector.value", "vrvector.next_object"); }

extern "C" void h_c11_rt_string() {
  int n = verif_choice("n", 4);
  char raw[4] = {0, 0, 0, 0};
  if (n) sym_fill(raw, n, "s");
  std::string s(raw, n);
  size_t trailer = 0; sym_fill(&trailer, sizeof(size_t), "t");
  cvm::memory_stream os;
  os << s << trailer;
  verif_reach("rt.string");
  verif_assert(os.length() == sizeof(size_t) + n + sizeof(size_t), "string.length");
  cvm::memory_stream is(os.length(), os.output_buffer());
  std::string w; size_t t2 = 0;
  is >> w;
  verif_assert(bool(is), "string.read_ok");
  verif_assert(w.size() == (size_t) n, "string.size");
  verif_assert(w.size() != (size_t) n || std::memcmp(w.data(), raw, n) == 0, "string.value");
  is >> t2;
  verif_assert(bool(is) && t2 == trailer, "string.next_object");
}

extern "C" void h_c11_rt_vector1d() {
  int n = verif_choice("n", 4);
  cvm::vector1d<cvm::real> v(n);
  for (int i = 0; i < n; i++) v[i] = verif_sym_double(i == 0 ? "x0" : i == 1 ? "x1" : "x2");
  cvm::memory_stream os;
  os << v;
  verif_reach("rt.vector1d");
  verif_assert(os.length() == sizeof(size_t) + n * sizeof(cvm::real), "vector1d.length");
  cvm::memory_stream is(os.length(), os.output_buffer());
  cvm::vector1d<cvm::real> w;
  is >> w;
  verif_assert(bool(is), "vector1d.read_ok");
  verif_assert(w.size() == (size_t) n, "vector1d.size");
  for (int i = 0; i < n && i < (int) w.size(); i++) verif_assert_eq(w[i], v[i], "vector1d.value");
}

extern "C" void h_c11_rt_colvarvalue() {
  verif_need_module();
  int k = verif_choice("type", 5);
  colvarvalue v(k == 0 ? colvarvalue::type_scalar : k == 1 ? colvarvalue::type_3vector : k == 2 ? colvarvalue::type_unit3vector : k == 3 ? colvarvalue::type_quaternion : colvarvalue::type_vector);
  if (k == 0) v = colvarvalue(verif_sym_double("x0"));
  else if (k == 1) v = colvarvalue(cvm::rvector(verif_sym_double("x0"), verif_sym_double("x1"), verif_sym_double("x2")), colvarvalue::type_3vector);
  else if (k == 2) v = colvarvalue(cvm::rvector(verif_sym_double("x0"), verif_sym_double("x1"), verif_sym_double("x2")), colvarvalue::type_unit3vector);
  else if (k == 3) v = colvarvalue(cvm::quaternion(verif_sym_double("x0"), verif_sym_double("x1"), verif_sym_double("x2"), verif_sym_double("x3")));
  else { cvm::vector1d<cvm::real> a(2); a[0] = verif_sym_double("x0"); a[1] = verif_sym_double("x1"); v = colvarvalue(a, colvarvalue::type_vector); }
  // unit vectors and quaternions are normalised when read: values of these types have unit norm
  if (k == 2) verif_assume(v.rvector_value.norm2() == 1.0);
  if (k == 3) verif_assume(v.quaternion_value.norm2() == 1.0);
  cvm::memory_stream os;
  os << v;
  verif_reach("rt.colvarvalue");
  verif_assert(bool(os), "colvarvalue.write_ok");
  cvm::memory_stream is(os.length(), os.output_buffer());
  colvarvalue w(v.type());
  if (k == 4) w = colvarvalue(cvm::vector1d<cvm::real>(2), colvarvalue::type_vector);
  is >> w;
  verif_assert(bool(is), "colvarvalue.read_ok");
  verif_assert(is.tellg() == os.length(), "colvarvalue.consumed");
  verif_assert(w.type() == v.type(), "colvarvalue.type");
  if (k == 0) verif_assert_eq(w.real_value, v.real_value, "colvarvalue.scalar");
  if (k == 1 || k == 2) { verif_assert_eq(w.rvector_value.x, v.rvector_value.x, "colvarvalue.vec.x"); verif_assert_eq(w.rvector_value.y, v.rvector_value.y, "colvarvalue.vec.y"); verif_assert_eq(w.rvector_value.z, v.rvector_value.z, "colvarvalue.vec.z"); }
  if (k == 3) { verif_assert_eq(w.quaternion_value.q0, v.quaternion_value.q0, "colvarvalue.q0"); verif_assert_eq(w.quaternion_value.q1, v.quaternion_value.q1, "colvarvalue.q1");
                verif_assert_eq(w.quaternion_value.q2, v.quaternion_value.q2, "colvarvalue.q2"); verif_assert_eq(w.quaternion_value.q3, v.quaternion_value.q3, "colvarvalue.q3"); }
  if (k == 4) { verif_assert(w.vector1d_value.size() == 2, "colvarvalue.vector.size"); if (w.vector1d_value.size() == 2) { verif_assert_eq(w.vector1d_value[0], v.vector1d_value[0], "colvarvalue.vector.0"); verif_assert_eq(w.vector1d_value[1], v.vector1d_value[1], "colvarvalue.vector.1"); } }
}

// ---- (b) damaged / truncated binary input: arbitrary bytes, arbitrary (shorter) declared length ---------------------
#ifndef C11_NBYTES
#define C11_NBYTES 24
#endif
static unsigned char dbuf[C11_NBYTES + 8];
static size_t damaged_len() {
  sym_fill(dbuf, C11_NBYTES, "b");
  // the buffer handed to the stream is any prefix of the 24 arbitrary bytes (truncation at any offset)
  long n = verif_sym_int("len", 0, C11_NBYTES);
  return (size_t) n;
}
template <typename T> static void damaged_vector(const char *tag) {
  size_t n = damaged_len();
  cvm::memory_stream is(n, dbuf);
  std::vector<T> w;
  is >> w;
  verif_reach(tag);
  verif_assert(is.tellg() <= n, "damaged.pos_within_buffer");
  verif_assert(!bool(is) || (w.size() * sizeof(T) + sizeof(size_t) <= n), "damaged.ok_implies_fits");
  verif_assert(bool(is) || w.size() == 0, "damaged.fail_leaves_target_untouched");
}
extern "C" void h_c11_dmg_vdouble() { damaged_vector<double>("dmg.vdouble"); }
extern "C" void h_c11_dmg_vint() { damaged_vector<int>("dmg.vint"); }
extern "C" void h_c11_dmg_vchar() { damaged_vector<char>("dmg.vchar"); }
extern "C" void h_c11_dmg_vrvector() { damaged_vector<cvm::rvector>("dmg.vrvector"); }
extern "C" void h_c11_dmg_string() {
  size_t n = damaged_len();
  cvm::memory_stream is(n, dbuf);
  std::string w;
  is >> w;
  verif_reach("dmg.string");
  verif_assert(is.tellg() <= n, "damaged.pos_within_buffer");
  verif_assert(!bool(is) || (w.size() + sizeof(size_t) <= n), "damaged.ok_implies_fits");
}
extern "C" void h_c11_dmg_objects() {
  size_t n = damaged_len();
  cvm::memory_stream is(n, dbuf);
  double d = 0; int i = 0; size_t s = 0; cvm::rvector r;
  is >> i; bool ok1 = bool(is);
  is >> d; bool ok2 = bool(is);
  is >> s;
  is >> r;
  verif_reach("dmg.objects");
  verif_assert(is.tellg() <= n, "damaged.pos_within_buffer");
  verif_assert(ok1 == (n >= 4), "damaged.int_ok_iff_enough_bytes");
  verif_assert(ok2 == (n >= 12), "damaged.double_ok_iff_enough_bytes");
  verif_assert(!bool(is) || n >= 4 + 8 + 8 + 24, "damaged.all_ok_iff_enough_bytes");
}
extern "C" void h_c11_dmg_vector1d() {
  size_t n = damaged_len();
  cvm::memory_stream is(n, dbuf);
  cvm::vector1d<cvm::real> w;
  is >> w;
  verif_reach("dmg.vector1d");
  verif_assert(is.tellg() <= n, "damaged.pos_within_buffer");
  verif_assert(!bool(is) || (w.size() * sizeof(cvm::real) + sizeof(size_t) <= n), "damaged.ok_implies_fits");
}
extern "C" void h_c11_dmg_colvarvalue() {
  verif_need_module();
  size_t n = damaged_len();
  int k = verif_choice("type", 4);
  colvarvalue w(k == 0 ? colvarvalue::type_scalar : k == 1 ? colvarvalue::type_3vector : k == 2 ? colvarvalue::type_quaternion : colvarvalue::type_vector);
  cvm::memory_stream is(n, dbuf);
  is >> w;
  verif_reach("dmg.colvarvalue");
  verif_assert(is.tellg() <= n, "damaged.pos_within_buffer");
}
