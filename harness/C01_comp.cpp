// C01: applied atomic forces are the negative gradient of the reported energy.
// One variable (single component unless stated) + one bias per set-up, all built from configuration text; all proxy atoms
// are compared, including atoms outside the groups.
#include "e2e.h"

#define PRE "units real\ncolvarsTrajFrequency 0\n"
#define HARM(c) "harmonic {\n name h\n colvars v\n centers " c "\n forceConstant 3.0\n}\n"
#define LIN(c) "linear {\n name l\n colvars v\n centers " c "\n forceConstant 1.5\n}\n"
#define CV(w, body) "colvar {\n name v\n width " w "\n" body "}\n"

#define C01_CASE(NAME, NATOMS, CFG) \
  extern "C" void h_c01_##NAME##_setup() { e2e_make(NATOMS, PRE CFG); } \
  extern "C" void h_c01_##NAME() { e2e_free_positions(NATOMS); verif_reach(#NAME); verif_assert(e2e_step() == COLVARS_OK, "step.ok"); e2e_check_forces(NATOMS); }

// ---- distances ------------------------------------------------------------------------------------------------------
C01_CASE(distance, 5, CV("0.5", "distance {\n group1 { atomNumbers 1 2 }\n group2 { atomNumbers 3 4 }\n }\n") HARM("2.5"))
C01_CASE(distancez, 4, CV("0.5", "distanceZ {\n main { atomNumbers 1 2 }\n ref { atomNumbers 3 }\n axis (1.0, 2.0, 2.0)\n }\n") HARM("0.75"))
C01_CASE(distancez_ref2, 4, CV("0.5", "distanceZ {\n main { atomNumbers 1 }\n ref { atomNumbers 2 }\n ref2 { atomNumbers 3 }\n }\n") LIN("0.75"))
C01_CASE(distancexy, 4, CV("0.5", "distanceXY {\n main { atomNumbers 1 2 }\n ref { atomNumbers 3 }\n axis (2.0, -1.0, 2.0)\n }\n") HARM("1.25"))
C01_CASE(distancexy_ref2, 4, CV("0.5", "distanceXY {\n main { atomNumbers 1 }\n ref { atomNumbers 2 }\n ref2 { atomNumbers 3 }\n }\n") LIN("1.25"))
C01_CASE(distanceinv, 4, CV("0.5", "distanceInv {\n group1 { atomNumbers 1 }\n group2 { atomNumbers 2 3 }\n exponent 2\n }\n") LIN("1.25"))
C01_CASE(distancevec, 4, CV("0.5", "distanceVec {\n group1 { atomNumbers 1 2 }\n group2 { atomNumbers 3 }\n }\n") HARM("(1.0, -2.0, 0.5)"))
C01_CASE(distancevec_nopbc, 4, CV("0.5", "distanceVec {\n group1 { atomNumbers 1 2 }\n group2 { atomNumbers 3 }\n forceNoPBC on\n }\n") HARM("(1.0, -2.0, 0.5)"))
C01_CASE(distancedir, 3, CV("0.5", "distanceDir {\n group1 { atomNumbers 1 }\n group2 { atomNumbers 2 }\n }\n") LIN("(0.0, 0.6, 0.8)"))
C01_CASE(distancepairs, 4, CV("0.5", "distancePairs {\n group1 { atomNumbers 1 2 }\n group2 { atomNumbers 3 }\n }\n") LIN("(1.0, 2.0)"))
C01_CASE(cartesian, 3, CV("0.5", "cartesian {\n atoms { atomNumbers 1 2 }\n }\n") HARM("(0.5, 1.0, -1.0, 2.0, 0.25, 0.0)"))

// ---- size / shape ---------------------------------------------------------------------------------------------------
C01_CASE(gyration, 4, CV("0.5", "gyration {\n atoms { atomNumbers 1 2 3 }\n }\n") LIN("1.5"))
C01_CASE(inertia, 4, CV("0.5", "inertia {\n atoms { atomNumbers 1 2 3 }\n }\n") HARM("4.0"))
C01_CASE(inertiaz, 4, CV("0.5", "inertiaZ {\n atoms { atomNumbers 1 2 3 }\n axis (1.0, 2.0, 2.0)\n }\n") HARM("4.0"))
C01_CASE(dipolemagnitude, 4, CV("0.5", "dipoleMagnitude {\n atoms { atomNumbers 1 2 3 }\n }\n") LIN("1.5"))

// ---- angles ---------------------------------------------------------------------------------------------------------
C01_CASE(polartheta, 3, CV("5.0", "polarTheta {\n atoms { atomNumbers 1 2 }\n }\n") LIN("60.0"))
extern "C" void h_c01_polarphi_setup() { e2e_make(3, PRE CV("5.0", "polarPhi {\n atoms { atomNumbers 1 2 }\n }\n") HARM("60.0")); }
extern "C" void h_c01_polarphi() {
  e2e_free_positions(3);
  verif_reach("polarphi");
  int e = px->colvars->calc_colvars();
  // periodic variable: stay within half a period of the restraint centre (the periodic image choice is C18's subject)
  cvm::real v = e2e_cv("v")->value().real_value;
  verif_assume(v > 60.0 - 170.0 && v < 60.0 + 170.0);
  e |= px->colvars->calc_biases(); e |= px->colvars->update_colvar_forces();
  verif_assert(e == COLVARS_OK, "step.ok");
  e2e_check_forces(3);
}
extern "C" void h_c01_angle_setup() { e2e_make(4, PRE CV("5.0", "angle {\n group1 { atomNumbers 1 }\n group2 { atomNumbers 2 }\n group3 { atomNumbers 3 }\n }\n") LIN("100.0")); }
extern "C" void h_c01_angle() {
  // slices: vertex at the origin of a rational frame; arms along rational unit directions with symbolic lengths,
  // plus (choice 2) the two arm atoms completely free with the vertex pinned at the origin
  int s = verif_choice("slice", 3);
  cvm::real L1 = verif_sym_double("L1"), L3 = verif_sym_double("L3");
  verif_assume(L1 > 0.0 && L3 > 0.0);
  if (s == 0) { e2e_pin(0, L1 * 2.0 / 7.0, L1 * 3.0 / 7.0, L1 * 6.0 / 7.0); e2e_pin(1, 0.0, 0.0, 0.0); e2e_pin(2, L3 * 1.0 / 9.0, L3 * 4.0 / 9.0, L3 * 8.0 / 9.0); }
  else if (s == 1) { e2e_pin(0, -L1 * 3.0 / 13.0, L1 * 4.0 / 13.0, L1 * 12.0 / 13.0); e2e_pin(1, 0.5, -1.0, 2.0); e2e_pin(2, 0.5 + L3 * 6.0 / 11.0, -1.0 - L3 * 2.0 / 11.0, 2.0 + L3 * 9.0 / 11.0); }
  else { e2e_pos(0, verif_sym_double_ad("x0"), verif_sym_double_ad("y0"), verif_sym_double_ad("z0")); e2e_pin(1, 0.0, 0.0, 0.0); e2e_pos(2, verif_sym_double_ad("x2"), verif_sym_double_ad("y2"), verif_sym_double_ad("z2")); }
  e2e_pos(3, verif_sym_double_ad("x3"), verif_sym_double_ad("y3"), verif_sym_double_ad("z3"));
  verif_reach("angle");
  verif_assert(e2e_step() == COLVARS_OK, "step.ok");
  e2e_check_forces(4);
}
extern "C" void h_c01_dihedral_setup() { e2e_make(5, PRE CV("5.0", "dihedral {\n group1 { atomNumbers 1 }\n group2 { atomNumbers 2 }\n group3 { atomNumbers 3 }\n group4 { atomNumbers 4 }\n }\n") HARM("100.0")); }
extern "C" void h_c01_dihedral() {
  int s = verif_choice("slice", (int) verif_param("dihedral_slices", 2));     // 3: also general position (thorough tier)
  cvm::real L = verif_sym_double("L");
  verif_assume(L > 0.0);
  e2e_pos(0, verif_sym_double_ad("x0"), verif_sym_double_ad("y0"), verif_sym_double_ad("z0"));
  if (s == 0) { e2e_pin(1, 0.0, 0.0, 0.0); e2e_pin(2, L * 2.0 / 7.0, L * 3.0 / 7.0, L * 6.0 / 7.0); }
  else if (s == 1) { e2e_pin(1, 1.0, -0.5, 0.25); e2e_pin(2, 1.0 + L * 4.0 / 9.0, -0.5 - L * 1.0 / 9.0, 0.25 + L * 8.0 / 9.0); }
  else { e2e_pos(1, verif_sym_double_ad("x1"), verif_sym_double_ad("y1"), verif_sym_double_ad("z1")); e2e_pos(2, verif_sym_double_ad("x2"), verif_sym_double_ad("y2"), verif_sym_double_ad("z2")); }   // general position
  e2e_pos(3, verif_sym_double_ad("x3"), verif_sym_double_ad("y3"), verif_sym_double_ad("z3"));
  e2e_pos(4, verif_sym_double_ad("x4"), verif_sym_double_ad("y4"), verif_sym_double_ad("z4"));
  verif_reach("dihedral");
  int e = px->colvars->calc_colvars();
  cvm::real v = e2e_cv("v")->value().real_value;
  verif_assume(v > 100.0 - 170.0 && v < 100.0 + 170.0);    // within half a period of the centre (image choice: C18)
  e |= px->colvars->calc_biases(); e |= px->colvars->update_colvar_forces();
  verif_assert(e == COLVARS_OK, "step.ok");
  e2e_check_forces(5);
}
C01_CASE(dipoleangle, 5, CV("5.0", "dipoleAngle {\n group1 { atomNumbers 1 2 }\n group2 { atomNumbers 3 }\n group3 { atomNumbers 4 }\n }\n") LIN("100.0"))

// ---- coordination numbers (switching functions with exponents 6/12) --------------------------------------------------
C01_CASE(coordnum, 3, CV("0.5", "coordNum {\n group1 { atomNumbers 1 }\n group2 { atomNumbers 2 }\n cutoff 3.5\n }\n") LIN("0.5"))
C01_CASE(coordnum_aniso, 3, CV("0.5", "coordNum {\n group1 { atomNumbers 1 }\n group2 { atomNumbers 2 }\n cutoff3 (3.0, 4.0, 5.0)\n expNumer 4\n expDenom 8\n }\n") LIN("0.5"))
C01_CASE(selfcoordnum, 3, CV("0.5", "selfCoordNum {\n group1 { atomNumbers 1 2 }\n cutoff 3.5\n }\n") LIN("0.5"))
C01_CASE(hbond, 3, CV("0.5", "hBond {\n acceptor 1\n donor 2\n }\n") LIN("0.5"))
C01_CASE(groupcoord, 4, CV("0.5", "groupCoord {\n group1 { atomNumbers 1 2 }\n group2 { atomNumbers 3 }\n cutoff 3.5\n }\n") LIN("0.5"))

// ---- combinations of components ---------------------------------------------------------------------------------------
C01_CASE(lincomb, 5, CV("0.5", "distance {\n name a\n componentCoeff 2.5\n group1 { atomNumbers 1 }\n group2 { atomNumbers 2 3 }\n }\n distance {\n name b\n componentCoeff -1.0\n group1 { atomNumbers 3 }\n group2 { atomNumbers 4 }\n }\n") HARM("2.5"))
C01_CASE(polycomb, 5, CV("0.5", "distance {\n name a\n componentCoeff 0.5\n componentExp 2\n group1 { atomNumbers 1 }\n group2 { atomNumbers 2 3 }\n }\n distanceZ {\n name b\n componentCoeff -1.5\n componentExp 3\n main { atomNumbers 3 }\n ref { atomNumbers 4 }\n }\n") HARM("2.5"))
C01_CASE(veccomb, 4, CV("0.5", "distanceVec {\n name a\n componentCoeff 2.5\n group1 { atomNumbers 1 }\n group2 { atomNumbers 2 }\n }\n distanceVec {\n name b\n componentCoeff -1.0\n group1 { atomNumbers 2 }\n group2 { atomNumbers 3 }\n }\n") HARM("(1.0, -2.0, 0.5)"))

// ---- atom-group options ---------------------------------------------------------------------------------------------------
C01_CASE(dummy, 3, CV("0.5", "distance {\n group1 { atomNumbers 1 2 }\n group2 { dummyAtom (1.0, -2.0, 0.5) }\n }\n") HARM("2.5"))
C01_CASE(center_ref, 4, CV("0.5", "distanceZ {\n main { atomNumbers 1 2 3\n centerToReference on\n refPositions (0.5, 0.0, 0.0) (0.0, 1.0, 0.0) (0.0, 0.0, 2.0)\n }\n ref { dummyAtom (0.0, 0.0, 0.0) }\n }\n") HARM("0.75"))
C01_CASE(center_fitgroup, 6, CV("0.5", "distanceVec {\n group1 { atomNumbers 1 2\n centerToReference on\n refPositions (0.5, 0.0, 0.0) (0.0, 1.0, 0.0) (0.0, 0.0, 2.0)\n fittingGroup { atomNumbers 3 4 5 }\n }\n group2 { dummyAtom (0.0, 0.0, 0.0) }\n }\n") HARM("(1.0, -2.0, 0.5)"))
// center_nofitgrad (enableFitGradients off) omits the fit term by documentation: not part of the exactness claim
