// C16 (ABF part): the divergence kept up to date by the 2-D ABF update equals the one recomputed from the final gradients
#include "e2e.h"
struct abf_proxy : public colvarproxy_stub {
  bool same_step;
  abf_proxy(bool s) : colvarproxy_stub(), same_step(s) {}
  bool total_forces_same_step() const override { return same_step; }
};
extern "C" void h_c16abf_setup() {
  abf_proxy *p = new abf_proxy(false); px = p;
  for (int i = 0; i < 4; i++) p->init_atom(i + 1);
  e2e_config(
    "units real\ncolvarsTrajFrequency 0\n"
    "colvar {\n name z\n width 0.25\n lowerBoundary -0.5\n upperBoundary 0.25\n distanceZ {\n main { atomNumbers 1 }\n ref { atomNumbers 2 }\n }\n}\n"
    "colvar {\n name p\n width 90.0\n lowerBoundary -180.0\n upperBoundary 180.0\n distanceZ {\n main { atomNumbers 3 }\n ref { atomNumbers 4 }\n period 360.0\n }\n}\n"
    "abf {\n name a\n colvars z p\n fullSamples 2\n}\n");
}
static const char *GN[24] = {"g0","g1","g2","g3","g4","g5","g6","g7","g8","g9","g10","g11","g12","g13","g14","g15","g16","g17","g18","g19","g20","g21","g22","g23"};
extern "C" void h_c16abf_step() {
  colvarbias_abf *abf = dynamic_cast<colvarbias_abf *>(e2e_bias("a"));
  verif_assert(abf->b_integrate && abf->pmf != nullptr, "abf2d.integrates");
  px->b_simulation_running = true;
  for (int i = 0; i < 24; i++) abf->gradients->data[i] = verif_sym_double(GN[i]);
  for (int i = 0; i < 12; i++) abf->samples->data[i] = 5;
  abf->pmf->set_div();                                   // divergence consistent with the accumulated gradients
  // the force measured now belongs to the bin occupied one step ago (lagged convention), which differs from the current one
  abf->force_bin[0] = verif_choice("fb0", 3); abf->force_bin[1] = verif_choice("fb1", 4);
  int cur = verif_choice("current", 2);
  e2e_pos(0, 0.0, 0.0, cur ? 0.1 : -0.3); e2e_pos(1, 0.0, 0.0, 0.0);        // z bin 2 or 0
  e2e_pos(2, 0.0, 0.0, cur ? 100.0 : -100.0); e2e_pos(3, 0.0, 0.0, 0.0);    // p bin 3 or 0
  (*px->modify_atom_total_forces())[0] = cvm::rvector(0.0, 0.0, verif_sym_double("F0"));
  (*px->modify_atom_total_forces())[2] = cvm::rvector(0.0, 0.0, verif_sym_double("F2"));
  px->colvars->it = 5; px->colvars->it_restart = 0;
  verif_reach("abf2d");
  int e = px->colvars->calc_colvars(); e |= px->colvars->calc_biases();
  verif_assert(e == COLVARS_OK, "abf2d.step_ok");
  std::vector<cvm::real> incremental = abf->pmf->divergence;
  abf->pmf->set_div();
  for (size_t i = 0; i < incremental.size(); i++) verif_assert_eq(incremental[i], abf->pmf->divergence[i], "abf2d.divergence_incremental_equals_batch");
}
