// C13: defining then deleting objects is the identity; dependencies stay consistent
#include "e2e.h"

#define NV 3
#define NB 6
static const char *VN[NV] = {"A", "B", "C"};
static const char *VDEF[NV] = {
  "colvar {\n name A\n width 0.5\n lowerBoundary 0.0\n upperBoundary 4.0\n distance {\n group1 { atomNumbers 1 }\n group2 { atomNumbers 2 }\n }\n}\n",
  "colvar {\n name B\n width 0.5\n lowerBoundary 0.0\n upperBoundary 4.0\n extendedLagrangian on\n extendedTemp 300.0\n extendedFluctuation 0.25\n extendedTimeConstant 200.0\n extendedLangevinDamping 0.0\n"
  " distance {\n group1 { atomNumbers 2 }\n group2 { atomNumbers 3 }\n }\n}\n",
  "colvar {\n name C\n distanceVec {\n group1 { atomNumbers 3 }\n group2 { atomNumbers 4 }\n }\n}\n" };
static const char *BN[NB] = {"h1", "h2", "t1", "hw", "hc", "h1b"};
static const char *BDEF[NB] = {
  "harmonic {\n name h1\n colvars A\n centers 2.0\n forceConstant 2.0\n}\n",
  "harmonic {\n name h2\n colvars A B\n centers 2.0 1.5\n forceConstant 3.0\n}\n",
  "harmonic {\n name t1\n colvars B\n centers 1.0\n forceConstant 1.0\n writeTISamples on\n}\n",
  "harmonicWalls {\n name hw\n colvars A\n lowerWalls 0.5\n upperWalls 3.5\n forceConstant 4.0\n}\n",
  "harmonic {\n name hc\n colvars C\n centers (1.0, 0.0, 0.0)\n forceConstant 1.0\n}\n",
  "harmonic {\n name h1b\n colvars A\n centers 2.5\n forceConstant 1.5\n}\n" };
// which variables each bias needs
static const int BV[NB][NV] = { {1,0,0}, {1,1,0}, {0,1,0}, {1,0,0}, {0,0,1}, {1,0,0} };

static void fresh_proxy() {
  px = new colvarproxy_stub();
  px->b_simulation_running = true;
  px->colvars->read_config_string("units real\ncolvarsTrajFrequency 0\n");
}
extern "C" void h_c13_setup() {
  fresh_proxy();
  std::string conf;
  for (int i = 0; i < NV; i++) conf += VDEF[i];
  for (int i = 0; i < NB - 1; i++) conf += BDEF[i];
  int err = px->colvars->read_config_string(conf);
  verif_out_i64("config_err", err);
}
// positions by atom number (the slot order depends on the history)
static void setpos(int number, cvm::real x, cvm::real y, cvm::real z) {
  for (size_t j = 0; j < px->atoms_ids.size(); j++) if (px->atoms_ids[j] == number - 1) px->atoms_positions[j] = cvm::rvector(x, y, z);
}
static cvm::rvector force_on(int number) {
  for (size_t j = 0; j < px->atoms_ids.size(); j++) if (px->atoms_ids[j] == number - 1 && px->atoms_refcount[j] > 0) return px->atoms_new_colvar_forces[j];
  return cvm::rvector(0.0, 0.0, 0.0);
}

// ---- invariants of the dependency graph -----------------------------------------------------------------------------------------------
static int n_objects;
enum { K_RC, K_AVAIL, K_SELF, K_EXCL, K_ALT, K_CHILD, K_BACK, K_FWD, K_N };
static bool okflag[K_N];
static const char *KLABEL[K_N] = {"deps.refcount_nonnegative", "deps.enabled_is_available", "deps.requires_self_enabled", "deps.exclusive_not_both", "deps.requires_alt_enabled",
                                  "deps.requires_children_enabled", "deps.child_knows_parent", "deps.parent_knows_child"};
#define FLAG(cond, k) okflag[k] = okflag[k] & (cond)
static void check_deps(colvardeps *o) {
  n_objects++;
  std::vector<colvardeps::feature *> const &F = o->features();
  bool active = o->is_enabled(0);
  for (size_t f = 0; f < F.size(); f++) {
    if (F[f]->type == colvardeps::f_type_not_set) continue;
    colvardeps::feature_state &st = o->feature_states[f];
    FLAG(st.ref_count >= 0, K_RC);
    if (!st.enabled) continue;
    FLAG(st.available, K_AVAIL);
    for (size_t i = 0; i < F[f]->requires_self.size(); i++) FLAG(o->is_enabled(F[f]->requires_self[i]), K_SELF);
    for (size_t i = 0; i < F[f]->requires_exclude.size(); i++) FLAG(!o->is_enabled(F[f]->requires_exclude[i]), K_EXCL);
    for (size_t i = 0; i < F[f]->requires_alt.size(); i++) {
      bool any = false;
      for (size_t j = 0; j < F[f]->requires_alt[i].size(); j++) any = any | o->is_enabled(F[f]->requires_alt[i][j]);
      FLAG(any, K_ALT);
    }
    if (active)
      for (size_t i = 0; i < F[f]->requires_children.size(); i++)
        for (size_t c = 0; c < o->children.size(); c++) FLAG(o->children[c]->is_enabled(F[f]->requires_children[i]), K_CHILD);
  }
  for (size_t c = 0; c < o->children.size(); c++) {
    bool back = false;
    for (size_t p = 0; p < o->children[c]->parents.size(); p++) back = back | (o->children[c]->parents[p] == o);
    FLAG(back, K_BACK);
  }
  for (size_t p = 0; p < o->parents.size(); p++) {
    bool fwd = false;
    for (size_t c = 0; c < o->parents[p]->children.size(); c++) fwd = fwd | (o->parents[p]->children[c] == o);
    FLAG(fwd, K_FWD);
  }
}
static void check_all() {
  n_objects = 0;
  for (int k = 0; k < K_N; k++) okflag[k] = true;
  colvarmodule *cv = px->colvars;
  std::vector<long> live(px->atoms_ids.size(), 0);
  for (size_t i = 0; i < cv->variables()->size(); i++) {
    colvar *v = (*cv->variables())[i];
    check_deps(v);
    // every bias listed by the variable exists in the module and lists the variable
    for (size_t b = 0; b < v->biases.size(); b++) {
      bool found = false;
      for (size_t k = 0; k < cv->biases.size(); k++) found = found | (cv->biases[k] == v->biases[b]);
      verif_assert(found, "links.variable_lists_live_biases_only");
    }
    for (size_t c = 0; c < v->cvcs.size(); c++) {
      colvar::cvc *cc = v->cvcs[c].get();
      check_deps(cc);
      for (size_t g = 0; g < cc->atom_groups.size(); g++) {
        cvm::atom_group *ag = cc->atom_groups[g];
        check_deps(ag);
        for (size_t a = 0; a < ag->atoms.size(); a++) { int ix = ag->atoms[a].index; verif_assert(ix >= 0 && (size_t) ix < live.size(), "atoms.index_valid"); if (ix >= 0 && (size_t) ix < live.size()) live[ix]++; }
        if (ag->fitting_group) { check_deps(ag->fitting_group); for (size_t a = 0; a < ag->fitting_group->atoms.size(); a++) live[ag->fitting_group->atoms[a].index]++; }
      }
    }
  }
  for (size_t k = 0; k < cv->biases.size(); k++) {
    colvarbias *b = cv->biases[k];
    check_deps(b);
    for (size_t i = 0; i < b->num_variables(); i++) {
      bool found = false;
      for (size_t j = 0; j < cv->variables()->size(); j++) found = found | ((*cv->variables())[j] == b->variables(i));
      verif_assert(found, "links.bias_uses_live_variables_only");
    }
  }
  // atoms: the engine-side reference count of every slot is the number of live atom objects that use it
  for (size_t j = 0; j < live.size(); j++) verif_assert((long) px->atoms_refcount[j] == live[j], "atoms.refcount_is_number_of_users");
  for (int k = 0; k < K_N; k++) verif_assert(okflag[k], KLABEL[k]);
  verif_out_i64("objects", n_objects);
}

// ---- one step at the given coordinates; what every surviving object produces ---------------------------------------------------------
struct snap { int has_v[NV], has_b[NB]; cvm::real v[NV][3], E[NB], f[4][3], Etot; };
static void step_and_snap(cvm::real xa, cvm::real xb, cvm::real ya, cvm::real p, cvm::real q, cvm::real r, long it, snap &S) {
  setpos(1, 0.0, 0.0, 0.0); setpos(2, xa, 0.0, 0.0); setpos(3, xa, xb, ya); setpos(4, xa + p, xb + q, ya + r);
  for (size_t j = 0; j < px->atoms_new_colvar_forces.size(); j++) px->atoms_new_colvar_forces[j] = cvm::rvector(0.0, 0.0, 0.0);     // as every engine does at the start of a step
  px->colvars->it = it;
  int err = px->colvars->calc_colvars(); err |= px->colvars->calc_biases(); err |= px->colvars->update_colvar_forces();
  verif_assert(err == COLVARS_OK && cvm::get_error() == COLVARS_OK, "step.no_error");
  px->colvars->clear_error();
  for (int i = 0; i < NV; i++) {
    colvar *v = cvm::colvar_by_name(VN[i]); S.has_v[i] = v != nullptr;
    for (int k = 0; k < 3; k++) S.v[i][k] = 0.0;
    if (v) { if (v->value().type() == colvarvalue::type_scalar) S.v[i][0] = v->value().real_value; else for (int k = 0; k < 3; k++) S.v[i][k] = v->value().rvector_value[k]; }
  }
  for (int i = 0; i < NB; i++) { colvarbias *b = cvm::bias_by_name(BN[i]); S.has_b[i] = b != nullptr; S.E[i] = b ? b->get_energy() : 0.0; }
  for (int a = 0; a < 4; a++) { cvm::rvector f = force_on(a + 1); for (int k = 0; k < 3; k++) S.f[a][k] = f[k]; }
  S.Etot = px->colvars->total_bias_energy;
}

// operations: 0..2 delete variable, 3..8 delete bias, 9 define h1b, 10 define h1 again, 11 nothing
#define NOPS 12
static void apply_op(int op) {
  int err = COLVARS_OK;
  if (op < NV) { colvar *v = cvm::colvar_by_name(VN[op]); if (v) delete v; }
  else if (op < NV + NB) { colvarbias *b = cvm::bias_by_name(BN[op - NV]); if (b) delete b; }
  else if (op == 9) { if (!cvm::bias_by_name("h1b") && cvm::colvar_by_name("A")) err = px->colvars->read_config_string(BDEF[5]); }
  else if (op == 10) { if (!cvm::bias_by_name("h1") && cvm::colvar_by_name("A")) err = px->colvars->read_config_string(BDEF[0]); }
  verif_assert(err == COLVARS_OK, "op.no_error");
  px->colvars->clear_error();
}
static void sequence(int nops) {
  int ops[4];
  for (int i = 0; i < nops; i++) ops[i] = verif_choice(i == 0 ? "op0" : (i == 1 ? "op1" : (i == 2 ? "op2" : "op3")), NOPS);
  cvm::real xa = verif_sym_double("xa"), xb = verif_sym_double("xb"), ya = verif_sym_double("ya"), p = verif_sym_double("p"), q = verif_sym_double("q"), r = verif_sym_double("r");
  verif_assume(xa > 0.75 && xa < 3.25 && xb > 0.5 && xb < 3.0 && ya > -2.0 && ya < 2.0);
  verif_reach("sequence");
  check_all();
  for (int i = 0; i < nops; i++) { apply_op(ops[i]); check_all(); }
  snap S1, S2;
  step_and_snap(xa, xb, ya, p, q, r, 0, S1);
  check_all();
  // the reference: a module in which only the survivors were ever defined
  int has_v[NV], has_b[NB];
  for (int i = 0; i < NV; i++) has_v[i] = S1.has_v[i];
  for (int i = 0; i < NB; i++) has_b[i] = S1.has_b[i];
  // a bias survives only with all of its variables
  for (int i = 0; i < NB; i++) for (int j = 0; j < NV; j++) if (has_b[i] && BV[i][j]) verif_assert(has_v[j], "links.bias_survives_with_its_variables");
  verif_assert(px->colvars->reset() == COLVARS_OK, "reset.ok");
  verif_assert(px->colvars->variables()->size() == 0 && px->colvars->biases.size() == 0, "reset.empties_module");
  for (size_t j = 0; j < px->atoms_refcount.size(); j++) verif_assert(px->atoms_refcount[j] == 0, "reset.releases_atoms");
  std::string conf("units real\ncolvarsTrajFrequency 0\n");
  for (int i = 0; i < NV; i++) if (has_v[i]) conf += VDEF[i];
  for (int i = 0; i < NB; i++) if (has_b[i]) conf += BDEF[i];
  verif_assert(px->colvars->read_config_string(conf) == COLVARS_OK, "reference.config_ok");
  check_all();
  step_and_snap(xa, xb, ya, p, q, r, 0, S2);
  for (int i = 0; i < NV; i++) {
    verif_assert(S1.has_v[i] == S2.has_v[i], "identity.same_variables");
    // a variable whose last bias was deleted is a case of its own (see known_findings.json)
    bool used = false;
    for (int b = 0; b < NB; b++) used = used | (has_b[b] && BV[b][i]);
    for (int k = 0; k < 3; k++) { if (used || !has_v[i]) verif_assert_eq(S1.v[i][k], S2.v[i][k], "identity.values"); else verif_assert_eq(S1.v[i][k], S2.v[i][k], "identity.values_of_variable_left_without_bias"); }
  }
  for (int i = 0; i < NB; i++) { verif_assert(S1.has_b[i] == S2.has_b[i], "identity.same_biases"); verif_assert_eq(S1.E[i], S2.E[i], "identity.energies"); }
  for (int a = 0; a < 4; a++) for (int k = 0; k < 3; k++) verif_assert_eq(S1.f[a][k], S2.f[a][k], "identity.atom_forces");
  verif_assert_eq(S1.Etot, S2.Etot, "identity.total_energy");
}
extern "C" void h_c13_seq1() { sequence(1); }
extern "C" void h_c13_seq2() { sequence(2); }
extern "C" void h_c13_seq3() { sequence(3); }

// a bias with timeStepFactor 2 is deleted (or the module reset) on a step where it is asleep
extern "C" void h_c13_sleeping() {
  int how = verif_choice("how", 2);       // 0: delete the sleeping bias, 1: reset the module
  verif_assert(px->colvars->reset() == COLVARS_OK, "reset.ok");      // the objects of the common set-up are not used here
  px->colvars->read_config_string("units real\ncolvarsTrajFrequency 0\n");
  std::string conf = std::string(VDEF[0]) + BDEF[0] + "harmonic {\n name s\n colvars A\n centers 1.0\n forceConstant 1.0\n timeStepFactor 2\n}\n";
  verif_assert(px->colvars->read_config_string(conf) == COLVARS_OK, "sleeping.config_ok");
  cvm::real xa = verif_sym_double("xa"); verif_assume((xa > 0.75) & (xa < 3.25));
  verif_reach("sleeping");
  snap S1, S2;
  step_and_snap(xa, 1.0, 0.0, 0.0, 1.0, 0.0, 0, S1);
  step_and_snap(xa, 1.0, 0.0, 0.0, 1.0, 0.0, 1, S1);       // the bias s is asleep on this step
  verif_assert(!cvm::bias_by_name("s")->is_enabled(colvardeps::f_cvb_awake), "sleeping.is_asleep");
  check_all();
  if (how == 0) {
    delete cvm::bias_by_name("s");
    verif_assert(cvm::get_error() == COLVARS_OK, "sleeping.delete_reports_no_error");
    px->colvars->clear_error();
    check_all();
    step_and_snap(xa, 1.0, 0.0, 0.0, 1.0, 0.0, 2, S1);
    // the survivor against a module in which the deleted bias never existed
    verif_assert(px->colvars->reset() == COLVARS_OK, "reset.ok");
    verif_assert(px->colvars->read_config_string(std::string("units real\ncolvarsTrajFrequency 0\n") + VDEF[0] + BDEF[0]) == COLVARS_OK, "reference.config_ok");
    step_and_snap(xa, 1.0, 0.0, 0.0, 1.0, 0.0, 2, S2);
    verif_assert_eq(S1.v[0][0], S2.v[0][0], "identity.values");
    verif_assert_eq(S1.E[0], S2.E[0], "identity.energies");
    verif_assert_eq(S1.Etot, S2.Etot, "identity.total_energy");
    for (int a = 0; a < 2; a++) for (int k = 0; k < 3; k++) verif_assert_eq(S1.f[a][k], S2.f[a][k], "identity.atom_forces");
  } else {
    int err = px->colvars->reset();
    verif_assert(err == COLVARS_OK && cvm::get_error() == COLVARS_OK, "sleeping.reset_reports_no_error");
    for (size_t j = 0; j < px->atoms_refcount.size(); j++) verif_assert(px->atoms_refcount[j] == 0, "reset.releases_atoms");
  }
}
