// C14: multiple-walker sharing combines every walker's data exactly once (shared ABF)
#include "e2e.h"
#include <sstream>
#include <cstring>
#ifdef VERIF_NATIVE
// native replay: the walkers of an exchange are real threads that pass a baton (exactly one runs at a time); a walker that waits for the
// combined data hands the baton back to the main thread, which runs walker 0 and then lets the others finish
#include <thread>
#include <mutex>
#include <condition_variable>
static std::mutex bmtx; static std::condition_variable bcv; static int turn = -1;
static void baton_give(int to) { { std::lock_guard<std::mutex> l(bmtx); turn = to; } bcv.notify_all(); }
static void baton_wait(int me) { std::unique_lock<std::mutex> l(bmtx); bcv.wait(l, [me]{ return turn == me; }); }
static void use(int w);
#endif

#define MAXW 3
static int NREAL = 0;        // number of reals at the head of an exchange message (gradient entries)
static int EXCH = 0;         // exchange counter (names of the placeholder symbols)
static std::vector<char> box[MAXW][MAXW]; static bool has[MAXW][MAXW];
static std::vector<char> pend[MAXW];

// Engine interface of one walker.  Messages are queued; a walker other than 0 that waits for the combined data before walker 0 has run
// receives placeholder symbols, which are bound to the real message when walker 0 sends it (the walkers of one exchange then run one after the other).
class walker_proxy : public colvarproxy_stub {
public:
  int idx, nrep;
  walker_proxy(int i, int n) : colvarproxy_stub(), idx(i), nrep(n) {}
  int check_replicas_enabled() override { return COLVARS_OK; }
  int replica_index() override { return idx; }
  int num_replicas() override { return nrep; }
  void replica_comm_barrier() override {}
  int replica_comm_send(char *buf, int len, int dest) override {
    if (idx == 0 && pend[dest].size()) {
      verif_assert((int) pend[dest].size() == len, "exchange.message_sizes_agree");
      int nr = NREAL, nc = (len - 8 * NREAL) / 8;
      for (int j = 0; j < nr; j++) { cvm::real a, b; memcpy(&a, &pend[dest][8 * j], 8); memcpy(&b, buf + 8 * j, 8); verif_assume(a == b); }
      for (int j = 0; j < nc; j++) { size_t a, b; memcpy(&a, &pend[dest][8 * (nr + j)], 8); memcpy(&b, buf + 8 * (nr + j), 8); verif_assume(a == b); }
      pend[dest].clear();
      return len;
    }
    box[idx][dest].assign(len, 0); if (len) memcpy(box[idx][dest].data(), buf, len); has[idx][dest] = true;
    return len;
  }
  int replica_comm_recv(char *buf, int len, int src) override {
    if (has[src][idx]) {
      verif_assert((int) box[src][idx].size() == len, "exchange.message_sizes_agree");
      if ((int) box[src][idx].size() != len) return -1;
      memcpy(buf, box[src][idx].data(), len); has[src][idx] = false; return len;
    }
    verif_assert(src == 0 && idx != 0, "exchange.protocol_order");
#ifdef VERIF_NATIVE
    baton_give(-1); baton_wait(idx); use(idx);
    if (!has[src][idx] || (int) box[src][idx].size() != len) return -1;
    memcpy(buf, box[src][idx].data(), len); has[src][idx] = false; return len;
#endif
    int nr = NREAL, nc = (len - 8 * NREAL) / 8;
    for (int j = 0; j < nr; j++) { std::string nm = "msg" + cvm::to_str(EXCH) + "w" + cvm::to_str(idx) + "g" + cvm::to_str(j); cvm::real v = verif_sym_double(nm.c_str()); memcpy(buf + 8 * j, &v, 8); }
    for (int j = 0; j < nc; j++) { std::string nm = "msg" + cvm::to_str(EXCH) + "w" + cvm::to_str(idx) + "c" + cvm::to_str(j); size_t v = (size_t) verif_sym_int(nm.c_str(), 0, 1000); memcpy(buf + 8 * (nr + j), &v, 8); }
    pend[idx].assign(len, 0); memcpy(pend[idx].data(), buf, len);
    return len;
  }
};
static walker_proxy *P[MAXW];
static int W = 2;
static void use(int w) { colvarmodule::proxy = P[w]; px = P[w]; }

static const char *CONF1 =
  "units real\ncolvarsTrajFrequency 0\n"
  "colvar {\n name d\n width 0.5\n lowerBoundary 1.0\n upperBoundary 3.0\n distance {\n group1 { atomNumbers 1 }\n group2 { atomNumbers 2 }\n }\n}\n"
  "abf {\n name a\n colvars d\n fullSamples 100000\n historyFreq 0\n shared on\n integrate off\n}\n";
static const char *CONF2 =
  "units real\ncolvarsTrajFrequency 0\n"
  "colvar {\n name d\n width 0.5\n lowerBoundary 1.0\n upperBoundary 2.0\n distance {\n group1 { atomNumbers 1 }\n group2 { atomNumbers 2 }\n }\n}\n"
  "colvar {\n name e\n width 0.5\n lowerBoundary 1.0\n upperBoundary 2.0\n distance {\n group1 { atomNumbers 3 }\n group2 { atomNumbers 4 }\n }\n}\n"
  "abf {\n name a\n colvars d e\n fullSamples 100000\n historyFreq 0\n shared on\n integrate off\n}\n";

static void make_walker(int w, const char *conf) {
  colvarmodule::proxy = nullptr;
  P[w] = new walker_proxy(w, W);
  use(w);
  for (int i = 0; i < 4; i++) px->init_atom(i + 1);
  px->b_simulation_running = true;
  verif_assert(px->colvars->read_config_string(std::string(conf)) == COLVARS_OK, "config.ok");
}
static colvarbias_abf *abf(int w) { use(w); return dynamic_cast<colvarbias_abf *>(cvm::bias_by_name("a")); }

static int SYMN = 0;
static cvm::real fresh_real(const char *tag) { std::string nm = std::string(tag) + cvm::to_str(SYMN++); return verif_sym_double(nm.c_str()); }
// one step of walker w at step number it: positions inside fixed bins, arbitrary total forces
static cvm::real LAST[MAXW][4];
static void step(int w, long it, int bin_d, int bin_e, int dims, bool replay = false) {
  use(w);
  cvm::real lo = 1.0, wd = 0.5;
  cvm::real x, y = 1.25, f, g;
  if (replay) { x = LAST[w][0]; y = LAST[w][1]; f = LAST[w][2]; g = LAST[w][3]; }
  else {
    x = fresh_real("x"); verif_assume((x > lo + wd * bin_d) & (x < lo + wd * (bin_d + 1)));
    if (dims == 2) { y = fresh_real("y"); verif_assume((y > lo + wd * bin_e) & (y < lo + wd * (bin_e + 1))); }
    f = fresh_real("f"); g = fresh_real("g");
    LAST[w][0] = x; LAST[w][1] = y; LAST[w][2] = f; LAST[w][3] = g;
  }
  e2e_pos(0, 0.0, 0.0, 0.0); e2e_pos(1, x, 0.0, 0.0); e2e_pos(2, 0.0, 5.0, 0.0); e2e_pos(3, 0.0, 5.0 + y, 0.0);
  for (int i = 0; i < 4; i++) { px->atoms_total_forces[i] = cvm::rvector(0.0, 0.0, 0.0); px->atoms_new_colvar_forces[i] = cvm::rvector(0.0, 0.0, 0.0); }
  px->atoms_total_forces[1] = cvm::rvector(f, 0.0, 0.0);
  px->atoms_total_forces[3] = cvm::rvector(0.0, g, 0.0);
  px->colvars->it = it;
  int err = px->colvars->calc_colvars(); err |= px->colvars->calc_biases(); err |= px->colvars->update_colvar_forces();
  verif_assert(err == COLVARS_OK && cvm::get_error() == COLVARS_OK, "step.no_error");
  px->colvars->clear_error();
}

// the harness's own ledger: what every walker contributed (gradient sums and counts per grid entry), from snapshots it takes itself
#define MAXG 16
struct ledger { cvm::real snapG[MAXG], ownG[MAXG]; long snapC[MAXG], ownC[MAXG]; };
static ledger LG[MAXW];
static int NG = 0, NC = 0;

static void exchange() {
  EXCH++;
  // every walker's contribution since the last exchange = its grids now minus the harness's snapshot taken after the last exchange
  for (int w = 0; w < W; w++) {
    colvarbias_abf *a = abf(w);
    for (int i = 0; i < NG; i++) LG[w].ownG[i] += a->gradients->data[i] - LG[w].snapG[i];
    for (int i = 0; i < NC; i++) LG[w].ownC[i] += (long) a->samples->data[i] - LG[w].snapC[i];
  }
#ifdef VERIF_NATIVE
  std::thread th[MAXW]; static int rc[MAXW];
  for (int w = 1; w < W; w++) {
    th[w] = std::thread([w]{ baton_wait(w); rc[w] = abf(w)->replica_share(); baton_give(-1); });
    baton_give(w); baton_wait(-1);       // walker w runs until it waits for the combined data
  }
  verif_assert(abf(0)->replica_share() == COLVARS_OK, "exchange.share_ok");
  for (int w = 1; w < W; w++) { baton_give(w); baton_wait(-1); th[w].join(); verif_assert(rc[w] == COLVARS_OK, "exchange.share_ok"); }
#else
  for (int w = 1; w < W; w++) verif_assert(abf(w)->replica_share() == COLVARS_OK, "exchange.share_ok");
  verif_assert(abf(0)->replica_share() == COLVARS_OK, "exchange.share_ok");
#endif
  for (int w = 0; w < W; w++) { verif_assert(pend[w].empty(), "exchange.all_messages_delivered"); for (int v = 0; v < W; v++) verif_assert(!has[w][v], "exchange.all_messages_delivered"); }
  for (int w = 0; w < W; w++) {
    colvarbias_abf *a = abf(w);
    verif_assert(cvm::get_error() == COLVARS_OK, "exchange.no_error");
    for (int i = 0; i < NG; i++) {
      cvm::real tot = 0.0; for (int v = 0; v < W; v++) tot += LG[v].ownG[i];
      verif_assert_eq(a->gradients->data[i], tot, "shared.gradients_are_union_counted_once");
      verif_assert_eq(a->local_gradients->data[i], LG[w].ownG[i], "shared.own_contribution_recoverable");
      LG[w].snapG[i] = a->gradients->data[i];
    }
    for (int i = 0; i < NC; i++) {
      long tot = 0; for (int v = 0; v < W; v++) tot += LG[v].ownC[i];
      verif_assert((long) a->samples->data[i] == tot, "shared.counts_are_union_counted_once");
      verif_assert((long) a->local_samples->data[i] == LG[w].ownC[i], "shared.own_counts_recoverable");
      LG[w].snapC[i] = (long) a->samples->data[i];
    }
  }
}
// walker r is stopped after an exchange and resumed in a fresh instance from its state
static void restart(int r, const char *conf, long it) {
  use(r);
  std::ostringstream os; px->colvars->write_state(os); std::string text = os.str();
  delete P[r];
  make_walker(r, conf);
  std::istringstream is(text);
  px->colvars->read_state(is);
  verif_assert(cvm::get_error() == COLVARS_OK, "restart.load_ok");
  px->colvars->clear_error();
}

static void scenario(int dims) {
  W = 2 + verif_choice("walkers", 2);
  int rst = verif_choice("restarted_walker", 3) - 1;     // -1: none, 0, 1
  const char *conf = dims == 1 ? CONF1 : CONF2;
  for (int w = 0; w < MAXW; w++) { pend[w].clear(); for (int v = 0; v < MAXW; v++) has[w][v] = false; }
  for (int w = 0; w < W; w++) make_walker(w, conf);
  colvarbias_abf *a0 = abf(0);
  NG = (int) a0->gradients->data.size(); NC = (int) a0->samples->data.size(); NREAL = NG;
  verif_assert(NG <= MAXG && NC <= MAXG && NG == dims * NC, "grid.sizes");
  for (int w = 0; w < W; w++) for (int i = 0; i < MAXG; i++) { LG[w].snapG[i] = LG[w].ownG[i] = 0.0; LG[w].snapC[i] = LG[w].ownC[i] = 0; }
  verif_reach("scenario");
  // step 0 (no accumulation), then two rounds of (steps, exchange); walkers take different numbers of steps and visit different bins
  for (int w = 0; w < W; w++) step(w, 0, w % 2, 0, dims);
  long it = 1;
  for (int w = 0; w < W; w++) step(w, it, (w + 1) % 2, w % 2, dims);
  it = 2;
  for (int w = 0; w < W; w++) step(w, it, w == 0 ? 0 : 1, 1, dims);
  exchange();
  if (rst >= 0) {
    restart(rst, conf, it);
    // the resumed walker replays the step of its state file (no accumulation on the first step of a run)
    step(rst, it, 1, 1, dims, true);
  }
  it = 3;
  for (int w = 0; w < W; w++) step(w, it, w % 2, (w + 1) % 2, dims);
  it = 4;
  step(W - 1, it, 1, 0, dims);
  exchange();
}
extern "C" void h_c14_setup() { px = nullptr; }
extern "C" void h_c14_abf1d() { scenario(1); }
extern "C" void h_c14_abf2d() { scenario(2); }
