#include "colvarmodule.h"
#include "colvartypes.h"
#include "colvarvalue.h"
#include "verif_api.h"
#include <sstream>
extern "C" void h_t_io() {
  std::ostringstream os;
  os << 1.5 << " " << 42;
  verif_out_str("s", os.str().c_str());
  double x = verif_sym_double("x");
  std::string t = cvm::to_str(x);
  std::istringstream is(t);
  double y = 0; is >> y;
  verif_assert_eq(x, y, "roundtrip");
  verif_out_str("t", "done");
}
extern "C" void h_t_io2() {
  long n = verif_sym_int("n", 0, 1000000);
  double x = verif_sym_double("x");
  std::ostringstream os;
  os.width(12); os << n; os << " "; os.setf(std::ios::scientific, std::ios::floatfield); os.precision(14); os.width(21); os << x << " end";
  std::istringstream is(os.str());
  long m = -1; double y = 0; std::string w;
  is >> m >> y >> w;
  verif_assert(m == n, "int roundtrip");
  verif_assert_eq(x, y, "double roundtrip");
  verif_assert(w == "end", "word");
  verif_assert(bool(is), "stream good");
}
