// C05: the metadynamics bias is the sum of the hills deposited on schedule
#include "e2e.h"

extern "C" void h_c05_setup() {
  e2e_make(4,
    "units real\ncolvarsTrajFrequency 0\n"
    "colvar {\n name d\n width 0.5\n lowerBoundary 1.0\n upperBoundary 3.0\n hardLowerBoundary on\n distance {\n group1 { atomNumbers 1 }\n group2 { atomNumbers 2 }\n }\n}\n"
    "colvar {\n name p\n width 90.0\n lowerBoundary -180.0\n upperBoundary 180.0\n distanceZ {\n main { atomNumbers 3 }\n ref { atomNumbers 4 }\n period 360.0\n }\n}\n"
    "metadynamics {\n name m0\n colvars d\n hillWeight 0.1\n hillWidth 2.0\n newHillFrequency 5\n useGrids off\n}\n"
    "metadynamics {\n name mp\n colvars p\n hillWeight 0.2\n hillWidth 1.0\n newHillFrequency 5\n useGrids off\n}\n"
    "metadynamics {\n name mw\n colvars d\n hillWeight 0.1\n hillWidth 2.0\n newHillFrequency 5\n useGrids off\n wellTempered on\n biasTemperature 1500.0\n}\n"
    "metadynamics {\n name mg\n colvars d\n hillWeight 0.1\n hillWidth 2.0\n newHillFrequency 5\n keepHills on\n}\n");
}
static void place(cvm::real x, cvm::real z) { e2e_pos(0, 0.0, 0.0, 0.0); e2e_pos(1, x, 0.0, 0.0); e2e_pos(2, 0.0, 0.0, z); e2e_pos(3, 0.0, 0.0, 0.0); }
static colvarbias_meta *meta(const char *n) { return dynamic_cast<colvarbias_meta *>(e2e_bias(n)); }
static cvm::real gauss(cvm::real sq) { return sq > 23.0 ? 0.0 : cvm::exp(-0.5 * sq); }   // documented cut-off of negligible hills
static cvm::real shortest(cvm::real diff, cvm::real period) { return diff - period * cvm::floor(diff / period + 0.5); }
static void add(colvarbias_meta *m, long it, cvm::real W, cvm::real c, cvm::real s) {
  std::vector<colvarvalue> cc(1, colvarvalue(c)); std::vector<cvm::real> ss(1, s); m->add_hill(colvarbias_meta::hill(it, W, cc, ss));
}

// deposition schedule, hill parameters (plain and well-tempered), energy/force = analytic sum (no grids)
static void nogrid_step(const char *name, bool wt) {
  colvarbias_meta *m = meta(name);
  cvm::real c0 = verif_sym_double("c0"), W0 = verif_sym_double("W0");
  add(m, 0, W0, c0, 0.75);                                         // one hill deposited earlier, arbitrary centre and height
  cvm::real x = verif_sym_double("x"); verif_assume(x > 0.0 && x < 100.0 && c0 > 0.0 && c0 < 100.0);
  place(x, 0.0);
  long t = verif_sym_int("t", 0, 40), r = verif_sym_int("r", 0, 40); verif_assume(r <= t);
  px->colvars->it = t; px->colvars->it_restart = r;
  verif_reach(wt ? "nogrid.welltempered" : "nogrid");
  px->colvars->calc_colvars();
  int e = m->update();
  verif_assert(e == COLVARS_OK, "update.ok");
  bool deposit = ((t % 5) == 0) & (t > r);
  verif_assert((long) m->hills.size() == (deposit ? 2 : 1), "schedule.hill_iff_multiple_of_frequency_and_eligible");
  cvm::real g0 = gauss((x - c0) * (x - c0) / (0.75 * 0.75));
  cvm::real E = W0 * g0, F = W0 * g0 * (x - c0) / (0.75 * 0.75);
  if (deposit) {
    colvarbias_meta::hill &h = m->hills.back();
    verif_assert_eq(h.centers[0].real_value, x, "new_hill.centre_is_current_value");
    verif_assert_eq(h.sigmas[0], 0.5, "new_hill.sigma");                       // width * hillWidth / 2
    verif_assert(h.it == t, "new_hill.step");
    // height: hillWeight, times exp(-V/kT) with V the bias at the deposition point for well-tempered runs
    cvm::real Wn = wt ? 0.1 * cvm::exp(-1.0 * (W0 * g0) / (1500.0 * px->boltzmann())) : 0.1;
    verif_assert_eq(h.weight(), Wn, "new_hill.height");
    E += Wn;                                                                   // the new hill is centred at x
  }
  verif_assert_eq(m->get_energy(), E, "energy_is_sum_of_hills");
  verif_assert_eq(m->colvar_forces[0].real_value, F, "force_is_sum_of_hill_gradients");
  verif_out_double("E", m->get_energy());
}
extern "C" void h_c05_nogrid() { nogrid_step("m0", false); }
extern "C" void h_c05_welltempered() { nogrid_step("mw", true); }

// periodic variable: hills act through the shortest image
extern "C" void h_c05_periodic() {
  colvarbias_meta *m = meta("mp");
  cvm::real c0 = verif_sym_double("c0"), W0 = verif_sym_double("W0");
  verif_assume(c0 >= -180.0 && c0 < 180.0);
  add(m, 0, W0, c0, 45.0);
  cvm::real z = verif_sym_double("z"); verif_assume(z > -500.0 && z < 500.0);
  place(1.5, z);
  px->colvars->it = 7; px->colvars->it_restart = 0;
  verif_reach("periodic");
  px->colvars->calc_colvars();
  m->update();
  cvm::real pv = e2e_cv("p")->value().real_value;
  cvm::real dp = shortest(pv - c0, 360.0);
  cvm::real g0 = gauss(dp * dp / (45.0 * 45.0));
  verif_assert_eq(m->get_energy(), W0 * g0, "periodic.energy_uses_shortest_image");
  verif_assert_eq(m->colvar_forces[0].real_value, W0 * g0 * dp / (45.0 * 45.0), "periodic.force_uses_shortest_image");
}

// grids: a hill deposited now is tabulated at the bin centres; the bias is looked up at the centre of the current bin
static const char *EN[4] = {"e0", "e1", "e2", "e3"}; static const char *GN[4] = {"g0", "g1", "g2", "g3"};
extern "C" void h_c05_grid() {
  colvarbias_meta *m = meta("mg");
  verif_assert(m->hills_energy->number_of_points() == 4, "grid.size");
  cvm::real e0[4], g0[4];
  for (int i = 0; i < 4; i++) { e0[i] = verif_sym_double(EN[i]); g0[i] = verif_sym_double(GN[i]); m->hills_energy->data[i] = e0[i]; m->hills_energy_gradients->data[i] = g0[i]; }
  cvm::real x = verif_sym_double("x"); verif_assume(x >= 1.0 && x < 3.0);
  place(x, 0.0);
  int dep = verif_choice("deposit", 2);
  px->colvars->it = dep ? 10 : 7; px->colvars->it_restart = 0;
  verif_reach("grid");
  px->colvars->calc_colvars();
  verif_assert(m->update() == COLVARS_OK, "grid.update_ok");
  long b = (long) cvm::floor((x - 1.0) / 0.5);
  cvm::real Eb = 0.0, Gb = 0.0;
  for (int i = 0; i < 4; i++) {
    cvm::real ci = 1.0 + 0.5 * (i + 0.5);                                       // bin centre
    cvm::real gi = gauss((ci - x) * (ci - x) / 0.25);
    cvm::real e_exp = e0[i] + (dep ? 0.1 * gi : 0.0), g_exp = g0[i] - (dep ? 0.1 * gi * (ci - x) / 0.25 : 0.0);   // gradient grid stores dE/dx
    verif_assert_eq(m->hills_energy->data[i], e_exp, i == 0 ? "grid.energy.bin0" : i == 1 ? "grid.energy.bin1" : i == 2 ? "grid.energy.bin2" : "grid.energy.bin3");
    verif_assert_eq(m->hills_energy_gradients->data[i], g_exp, i == 0 ? "grid.gradient.bin0" : i == 1 ? "grid.gradient.bin1" : i == 2 ? "grid.gradient.bin2" : "grid.gradient.bin3");
    int cur = (b == i);
    Eb = cur ? e_exp : Eb; Gb = cur ? g_exp : Gb;
  }
  verif_assert_eq(m->get_energy(), Eb, "grid.energy_is_tabulated_value_of_current_bin");
  verif_assert_eq(m->colvar_forces[0].real_value, -Gb, "grid.force_is_minus_tabulated_gradient");
  verif_assert((long) m->hills.size() == (dep ? 1 : 0), "grid.keepHills_keeps_the_hill");
}

// excursion beyond the grid: the hills near the boundary act analytically at the actual position
extern "C" void h_c05_offgrid() {
  colvarbias_meta *m = meta("mg");
  cvm::real xd = verif_sym_double("xd"); verif_assume(xd >= 1.0 && xd < 3.0);
  place(xd, 0.0);
  px->colvars->it = 10; px->colvars->it_restart = 0;
  px->colvars->calc_colvars();
  verif_assert(m->update() == COLVARS_OK, "offgrid.deposit_ok");                 // deposits a hill at xd (and tabulates it)
  cvm::real x = verif_sym_double("x"); verif_assume(x >= 3.0 && x < 100.0);
  place(x, 0.0);
  px->colvars->it = 11;
  verif_reach("offgrid");
  px->colvars->calc_colvars();
  verif_assert(m->update() == COLVARS_OK, "offgrid.update_ok");
  cvm::real g = gauss((x - xd) * (x - xd) / 0.25);
  verif_assert_eq(m->get_energy(), 0.1 * g, "offgrid.energy_is_analytic_hill");
  verif_assert_eq(m->colvar_forces[0].real_value, 0.1 * g * (x - xd) / 0.25, "offgrid.force_is_analytic_hill");
}
