// C09: configuration parsing is total, strict and independent of layout (bit-precise: bytes are 8-bit vectors)
#include "colvarmodule.h"
#include "colvartypes.h"
#include "colvarvalue.h"
#include "colvarparse.h"
#include "verif_api.h"
#include <sstream>
#ifndef C09_N
#define C09_N 4
#endif

static std::string sym_string(int n, const char *name) {
  char raw[16]; verif_sym_bytes(raw, n, name);
  for (int i = 0; i < n; i++) verif_assume(raw[i] != 0);
  return std::string(raw, n);
}

// totality of keyword lookup on arbitrary bytes: no crash, termination, result consistent
extern "C" void h_c09_lookup_total() {
  verif_need_module();
  int n = (int) verif_param("lookup_bytes", C09_N);
  std::string conf = sym_string(n, "c");
  colvarparse p;
  std::string data; size_t save_pos = 0;
  verif_reach("lookup");
  bool found = p.key_lookup(conf, "ab", &data, &save_pos);
  verif_assert(data.size() <= conf.size(), "lookup.value_not_longer_than_input");
  verif_assert(save_pos <= conf.size(), "lookup.position_within_input");
  // the keyword cannot be found in a text that does not contain its two letters (in either case) consecutively
  bool has = false;
  for (int i = 0; i + 1 < n; i++) has = has | (((conf[i] == 'a') | (conf[i] == 'A')) & ((conf[i + 1] == 'b') | (conf[i + 1] == 'B')));
  verif_assert(!found || has, "lookup.found_only_if_present");
  verif_out_i64("found", found ? 1 : 0);
}

// brace matching on arbitrary bytes
extern "C" void h_c09_braces() {
  verif_need_module();
  std::string conf = sym_string(5, "c");
  verif_reach("braces");
  int r = colvarparse::check_braces(conf, 0);
  int depth = 0;
  for (int i = 0; i < 5; i++) depth += (conf[i] == '{') ? 1 : ((conf[i] == '}') ? -1 : 0);
  verif_assert((r == COLVARS_OK) == (depth == 0), "braces.ok_iff_counts_match");
}

// line endings: a line read from "L\r\n" equals the line read from "L\n", for every L (including the empty line)
extern "C" void h_c09_getline_crlf() {
  verif_need_module();
  int n = verif_choice("len", 4);
  char raw[4] = {0, 0, 0, 0};
  if (n) verif_sym_bytes(raw, n, "l");
  for (int i = 0; i < n; i++) verif_assume(raw[i] != '\n' && raw[i] != '\r' && raw[i] != 0);
  std::string L(raw, n);
  std::istringstream lf(L + "\nnext\n"), crlf(L + "\r\nnext\r\n");
  std::string a, b, a2, b2;
  verif_reach("getline");
  cvm::getline(lf, a); cvm::getline(crlf, b);
  verif_assert(a.size() == (size_t) n && b.size() == (size_t) n, "getline.length");
  verif_assert(a == b, "getline.crlf_equals_lf");
  verif_assert(a == L, "getline.content");
  cvm::getline(lf, a2); cvm::getline(crlf, b2);
  verif_assert(a2 == "next" && b2 == "next", "getline.next_line");
}

// layout independence of a keyword / value pair: case of the keyword, amount of blanks, trailing comment-free space
extern "C" void h_c09_layout() {
  verif_need_module();
  std::string v = sym_string(2, "v");
  for (int i = 0; i < 2; i++) verif_assume(v[i] > ' ' && v[i] != '{' && v[i] != '}' && v[i] != '#' && v[i] < 127);
  colvarparse p;
  std::string base = "width " + v + "\n";
  std::string d0, d1, d2, d3, d4;
  verif_reach("layout");
  bool f0 = p.key_lookup(base, "width", &d0);
  bool f1 = p.key_lookup("WiDtH " + v + "\n", "width", &d1);
  bool f2 = p.key_lookup("  width \t  " + v + "  \n", "width", &d2);
  bool f3 = p.key_lookup("\n\n\nwidth " + v + "\n\n", "width", &d3);      // (CRLF is normalised by colvarmodule::getline, see h_c09_getline_crlf)
  bool f4 = p.key_lookup("other 1\nwidth " + v + "\nmore 2\n", "width", &d4);
  verif_assert(f0 && f1 && f2 && f3 && f4, "layout.keyword_found_in_every_spelling");
  verif_assert(d0 == v, "layout.value");
  verif_assert(d1 == d0, "layout.keyword_case");
  verif_assert(d2 == d0, "layout.blanks_and_tabs");
  verif_assert(d3 == d0, "layout.blank_lines");
  verif_assert(d4 == d0, "layout.other_keywords_around");
  std::string d5;
  verif_assert(!p.key_lookup("xwidth " + v + "\n", "width", &d5) && !p.key_lookup("widthx " + v + "\n", "width", &d5), "layout.keyword_not_matched_inside_another_word");
}

// strictness of typed values: a number is required
static bool is_digit(char c) { return (c >= '0') & (c <= '9'); }
extern "C" void h_c09_int_value() {
  verif_need_module();
  // the value is one concrete digit followed by two arbitrary visible characters
  std::string v = "7" + sym_string(2, "v");
  for (int i = 1; i < 3; i++) verif_assume(v[i] > ' ' && v[i] < 127 && v[i] != '{' && v[i] != '}' && v[i] != '#');
  colvarparse p;
  int x = -7;
  verif_reach("int_value");
  int err0 = cvm::get_error();
  bool found = p.get_keyval("count " + v + "\n", "count", x, -7, colvarparse::parse_silent);
  bool err = cvm::get_error() != err0;
  bool is_int = is_digit(v[1]) & is_digit(v[2]);
  verif_assert(found, "int.keyword_found");
  verif_assert(err || is_int, "int.text_where_a_number_is_required_is_rejected");
  verif_assert(!is_int || (!err && x == 700 + 10 * (v[1] - '0') + (v[2] - '0')), "int.valid_numbers_accepted_with_their_value");
}
extern "C" void h_c09_missing_value() {
  verif_need_module();
  colvarparse p;
  int x = -7; cvm::real w = -1.0; bool flag = false;
  verif_reach("missing_value");
  int err0 = cvm::get_error();
  p.get_keyval("count\nwidth   \nflag\n", "count", x, -7, colvarparse::parse_silent);
  verif_assert(cvm::get_error() != err0, "missing.int_value_is_an_error");
  colvarmodule::errorCode = 0; err0 = cvm::get_error();
  p.get_keyval("count 3\nwidth   \nflag\n", "width", w, -1.0, colvarparse::parse_silent);
  verif_assert(cvm::get_error() != err0, "missing.real_value_is_an_error");
  colvarmodule::errorCode = 0; err0 = cvm::get_error();
  p.get_keyval("count 3\nwidth 1.0\nflag\n", "flag", flag, false, colvarparse::parse_silent);
  verif_assert(cvm::get_error() == err0 && flag, "missing.boolean_shorthand_means_on");
}

// 3-vector values: "( x , y , z )" only
extern "C" void h_c09_rvector() {
  verif_need_module();
  char s1 = (char) verif_sym_u8("s1"), s2 = (char) verif_sym_u8("s2"), s3 = (char) verif_sym_u8("s3"), s0 = (char) verif_sym_u8("s0");
  verif_assume(s0 > ' ' && s0 < 127 && s1 > ' ' && s1 < 127 && s2 > ' ' && s2 < 127 && s3 > ' ' && s3 < 127);
  verif_assume(!is_digit(s1) && !is_digit(s2) && !is_digit(s3) && s1 != '.' && s2 != '.' && s3 != '.' && s1 != 'e' && s2 != 'e' && s3 != 'e' && s1 != 'E' && s2 != 'E' && s3 != 'E'
               && s1 != '-' && s1 != '+' && s2 != '-' && s2 != '+' && s3 != '-' && s3 != '+');     // separators that cannot extend the preceding number
  std::string txt = std::string(1, s0) + "1" + std::string(1, s1) + "2" + std::string(1, s2) + "3" + std::string(1, s3);
  std::istringstream is(txt);
  cvm::rvector v(9.0, 9.0, 9.0);
  verif_reach("rvector");
  is >> v;
  bool ok = bool(is);
  verif_assert(ok == ((s0 == '(') & (s1 == ',') & (s2 == ',') & (s3 == ')')), "rvector.accepted_iff_well_formed");
  verif_assert(!ok || (v.x == 1.0 && v.y == 2.0 && v.z == 3.0), "rvector.components");
}
