// C18 (variable-level part): periodic scalar distance and wrapping, vector distances of distanceVec / distanceDir,
// reached through the real colvar::dist2 / dist2_lgrad / wrap of variables defined by configuration text
#include "e2e.h"

extern "C" void h_c18cv_setup() {
  e2e_config(
    "units real\ncolvarsTrajFrequency 0\n"
    "colvar {\n name phi\n dihedral {\n group1 { atomNumbers 1 }\n group2 { atomNumbers 2 }\n group3 { atomNumbers 3 }\n group4 { atomNumbers 4 }\n }\n}\n"
    "colvar {\n name dz\n distanceZ {\n main { atomNumbers 1 }\n ref { atomNumbers 2 }\n period 7.0\n wrapAround 1.5\n }\n}\n"
    "colvar {\n name dv\n distanceVec {\n group1 { atomNumbers 1 }\n group2 { atomNumbers 2 }\n }\n}\n"
    "colvar {\n name dvn\n distanceVec {\n group1 { atomNumbers 1 }\n group2 { atomNumbers 2 }\n forceNoPBC on\n }\n}\n"
    "colvar {\n name dd\n distanceDir {\n group1 { atomNumbers 1 }\n group2 { atomNumbers 2 }\n }\n}\n"
    "colvar {\n name d\n distance {\n group1 { atomNumbers 1 }\n group2 { atomNumbers 2 }\n }\n}\n");
}

static void periodic_checks(colvar *cv, cvm::real p, cvm::real wc, const char *tag) {
  colvarvalue x1(verif_sym_double_ad("x1")), x2(verif_sym_double("x2"));
  verif_reach(tag);
  cvm::real d = cv->dist2(x1, x2);
  verif_assert(d >= 0.0, "periodic.nonneg");
  cvm::real g = cv->dist2_lgrad(x1, x2).real_value;
  verif_assert_deriv(d, "x1", g, "periodic.grad");
  // d is the square of the shortest-image difference: g/2 is that difference
  cvm::real diff = 0.5 * g;
  verif_assert_eq(diff * diff, d, "periodic.grad_consistent");
  verif_assert(diff >= -0.5 * p && diff <= 0.5 * p, "periodic.shortest_image");
  verif_assert(verif_is_integer((x1.real_value - x2.real_value - diff) / p), "periodic.image_is_lattice_shift");
  // symmetry: the reversed difference is the negative one (or the same -p/2 on the edge), and d = (g/2)^2 in both orders
  cvm::real d21 = cv->dist2(x2, x1), g21 = cv->dist2_lgrad(x2, x1).real_value;
  verif_assert_eq(0.25 * g21 * g21, d21, "periodic.grad_consistent.reversed");
  verif_assert(g21 == -g || (g21 == g && g == -p), "periodic.symmetric");
  verif_assert(!(g == 0.0) || verif_is_integer((x1.real_value - x2.real_value) / p), "periodic.zero_only_if_equivalent");   // d = (g/2)^2
  long n = verif_sym_int("n", -3, 3);
  colvarvalue x2s(x2.real_value + (cvm::real) n * p);
  verif_assert_eq(cv->dist2_lgrad(x2s, x2).real_value, 0.0, "periodic.zero_if_equivalent");
  colvarvalue x1s(x1.real_value + (cvm::real) n * p);
  verif_assert_eq(cv->dist2_lgrad(x1s, x2).real_value, g, "periodic.invariant_under_periods");   // d = (g/2)^2, see grad_consistent
  colvarvalue y(x1.real_value);
  cv->wrap(y);
  verif_assert(y.real_value >= wc - 0.5 * p && y.real_value < wc + 0.5 * p, "wrap.in_interval");
  verif_assert(verif_is_integer((x1.real_value - y.real_value) / p), "wrap.equivalent");
  verif_out_double("d", d); verif_out_double("wrapped", y.real_value);
}

extern "C" void h_c18cv_dihedral() {
  colvar *cv = e2e_cv("phi");
  verif_assert(cv->is_enabled(colvardeps::f_cv_periodic), "dihedral.is_periodic");
  verif_assert_eq(cv->period, 360.0, "dihedral.period");
  periodic_checks(cv, 360.0, cv->wrap_center, "dihedral");
}

extern "C" void h_c18cv_custom_period() {
  // all wrap centres (symbolic), periods on a slice of concrete values (7, 2.5; 360 in the dihedral harness) (a symbolic period makes the lattice
  // conditions non-linear integer-real arithmetic, which z3 does not decide): the configured numbers are replaced in
  // the variable and in its component
  colvar *cv = e2e_cv("dz");
  verif_assert(cv->is_enabled(colvardeps::f_cv_periodic), "dz.is_periodic");
  verif_assert_eq(cv->period, 7.0, "dz.period_from_config");
  verif_assert_eq(cv->wrap_center, 1.5, "dz.wrap_from_config");
  int pc = verif_choice("period_choice", 2);
  cvm::real p = pc == 0 ? 7.0 : 2.5, wc = verif_sym_double("wc");
  cv->period = p; cv->wrap_center = wc; cv->cvcs[0]->period = p; cv->cvcs[0]->wrap_center = wc;
  periodic_checks(cv, p, wc, "custom_period");
}

extern "C" void h_c18cv_nonperiodic() {
  colvar *cv = e2e_cv("d");
  colvarvalue x1(verif_sym_double_ad("x1")), x2(verif_sym_double("x2"));
  verif_reach("nonperiodic");
  cvm::real d = cv->dist2(x1, x2);
  verif_assert_eq(d, (x1.real_value - x2.real_value) * (x1.real_value - x2.real_value), "scalar.def");
  verif_assert_deriv(d, "x1", cv->dist2_lgrad(x1, x2).real_value, "scalar.grad");
  colvarvalue y(x1.real_value); cv->wrap(y);
  verif_assert_eq(y.real_value, x1.real_value, "scalar.wrap_identity");
}

static void vec_checks(colvar *cv, const char *tag) {
  colvarvalue x1(cvm::rvector(verif_sym_double_ad("a0"), verif_sym_double_ad("a1"), verif_sym_double_ad("a2")));
  colvarvalue x2(cvm::rvector(verif_sym_double("b0"), verif_sym_double("b1"), verif_sym_double("b2")));
  verif_reach(tag);
  cvm::real d = cv->dist2(x1, x2);
  verif_assert(d >= 0.0, "vec.nonneg");
  verif_assert_eq(d, cv->dist2(x2, x1), "vec.symmetric");
  cvm::rvector df = x1.rvector_value - x2.rvector_value;
  verif_assert_eq(d, df.norm2(), "vec.def");
  colvarvalue g = cv->dist2_lgrad(x1, x2);
  verif_assert_deriv(d, "a0", g.rvector_value.x, "vec.grad.x");
  verif_assert_deriv(d, "a1", g.rvector_value.y, "vec.grad.y");
  verif_assert_deriv(d, "a2", g.rvector_value.z, "vec.grad.z");
  verif_out_double("d", d);
}
extern "C" void h_c18cv_dvec() { vec_checks(e2e_cv("dv"), "distanceVec"); }
extern "C" void h_c18cv_dvec_nopbc() { vec_checks(e2e_cv("dvn"), "distanceVec.forceNoPBC"); }

extern "C" void h_c18cv_dvec_pbc() {
  // orthorhombic periodic cell: minimum-image vector distance
  colvar *cv = e2e_cv("dv");
  cvm::real L[3] = { 10.0, 12.5, 17.0 };     // slice: concrete cell edges (symbolic edges make the lattice conditions non-linear)
  px->boundaries_type = colvarproxy_system::boundaries_pbc_ortho;
  px->unit_cell_x = cvm::rvector(L[0], 0.0, 0.0); px->unit_cell_y = cvm::rvector(0.0, L[1], 0.0); px->unit_cell_z = cvm::rvector(0.0, 0.0, L[2]);
  px->update_pbc_lattice();
  colvarvalue x1(cvm::rvector(verif_sym_double_ad("a0"), verif_sym_double_ad("a1"), verif_sym_double_ad("a2")));
  colvarvalue x2(cvm::rvector(verif_sym_double("b0"), verif_sym_double("b1"), verif_sym_double("b2")));
  // separations below 1000 cell edges (round_to_integer() converts the number of cell edges to int)
  verif_assume(x1.rvector_value.x - x2.rvector_value.x < 1000.0 * L[0] && x2.rvector_value.x - x1.rvector_value.x < 1000.0 * L[0]);
  verif_assume(x1.rvector_value.y - x2.rvector_value.y < 1000.0 * L[1] && x2.rvector_value.y - x1.rvector_value.y < 1000.0 * L[1]);
  verif_assume(x1.rvector_value.z - x2.rvector_value.z < 1000.0 * L[2] && x2.rvector_value.z - x1.rvector_value.z < 1000.0 * L[2]);
  verif_reach("distanceVec.pbc");
  cvm::real d = cv->dist2(x1, x2), d21 = cv->dist2(x2, x1);
  verif_assert(d >= 0.0, "pbc.nonneg");
  colvarvalue g = cv->dist2_lgrad(x1, x2), g21 = cv->dist2_lgrad(x2, x1);
  cvm::rvector h = 0.5 * g.rvector_value;     // minimum-image difference x1 - x2
  // dist2 is the squared norm of the minimum-image difference, in both argument orders
  verif_assert_eq(d21, h.norm2(), "pbc.def.reversed");
  verif_assert_eq(d, 0.25 * g21.rvector_value.norm2(), "pbc.def");
  int sx = (g21.rvector_value.x == -g.rvector_value.x || (g21.rvector_value.x == g.rvector_value.x && g.rvector_value.x == -L[0])) ? 1 : 0;
  int sy = (g21.rvector_value.y == -g.rvector_value.y || (g21.rvector_value.y == g.rvector_value.y && g.rvector_value.y == -L[1])) ? 1 : 0;
  int sz = (g21.rvector_value.z == -g.rvector_value.z || (g21.rvector_value.z == g.rvector_value.z && g.rvector_value.z == -L[2])) ? 1 : 0;
  verif_assert(sx & sy & sz, "pbc.symmetric");    // with pbc.def*: d == d21
  verif_assert((h.x >= -0.5 * L[0]) & (h.x <= 0.5 * L[0]) & (h.y >= -0.5 * L[1]) & (h.y <= 0.5 * L[1]) & (h.z >= -0.5 * L[2]) & (h.z <= 0.5 * L[2]), "pbc.minimum_image");
  verif_assert(verif_is_integer((x1.rvector_value.x - x2.rvector_value.x - h.x) / L[0]), "pbc.lattice.x");
  verif_assert(verif_is_integer((x1.rvector_value.y - x2.rvector_value.y - h.y) / L[1]), "pbc.lattice.y");
  verif_assert(verif_is_integer((x1.rvector_value.z - x2.rvector_value.z - h.z) / L[2]), "pbc.lattice.z");
  long n = verif_sym_int("n", -2, 2);
  colvarvalue x1s(cvm::rvector(x1.rvector_value.x + (cvm::real) n * L[0], x1.rvector_value.y, x1.rvector_value.z - (cvm::real) n * L[2]));
  colvarvalue gs = cv->dist2_lgrad(x1s, x2);
  verif_assert_eq(gs.rvector_value.x, g.rvector_value.x, "pbc.invariant_under_lattice.x");
  verif_assert_eq(gs.rvector_value.y, g.rvector_value.y, "pbc.invariant_under_lattice.y");
  verif_assert_eq(gs.rvector_value.z, g.rvector_value.z, "pbc.invariant_under_lattice.z");
  // gradient: away from the half-cell faces, where the minimum-image distance is not differentiable
  verif_assume((h.x > -0.5 * L[0]) & (h.x < 0.5 * L[0]) & (h.y > -0.5 * L[1]) & (h.y < 0.5 * L[1]) & (h.z > -0.5 * L[2]) & (h.z < 0.5 * L[2]));
  verif_reach("distanceVec.pbc.interior");
  verif_assert_deriv(d, "a0", g.rvector_value.x, "pbc.grad.x");
  verif_assert_deriv(d, "a1", g.rvector_value.y, "pbc.grad.y");
  verif_assert_deriv(d, "a2", g.rvector_value.z, "pbc.grad.z");
}

extern "C" void h_c18cv_ddir() {
  colvar *cv = e2e_cv("dd");
  cvm::rvector a(verif_sym_double_ad("a0"), verif_sym_double_ad("a1"), verif_sym_double_ad("a2"));
  cvm::rvector b(verif_sym_double("b0"), verif_sym_double("b1"), verif_sym_double("b2"));
  colvarvalue x1(a, colvarvalue::type_unit3vector), x2(b, colvarvalue::type_unit3vector);
  verif_assume(a * a == 1.0); verif_assume(b * b == 1.0);
  cvm::real c = a * b;
  verif_assume(c > -1.0 && c < 1.0);
  verif_reach("distanceDir");
  cvm::real d = cv->dist2(x1, x2);
  verif_assert(d >= 0.0, "ddir.nonneg");
  verif_assert_eq(d, cv->dist2(x2, x1), "ddir.symmetric");
  colvarvalue g = cv->dist2_lgrad(x1, x2);
  cvm::rvector diff(g.rvector_value.x - verif_deriv(d, "a0"), g.rvector_value.y - verif_deriv(d, "a1"), g.rvector_value.z - verif_deriv(d, "a2"));
  cvm::real s = diff * a;
  verif_assert_eq(diff.x - a.x * s, 0.0, "ddir.grad.x");
  verif_assert_eq(diff.y - a.y * s, 0.0, "ddir.grad.y");
  verif_assert_eq(diff.z - a.z * s, 0.0, "ddir.grad.z");
}
