// C11 (d') a text state holding every kind of accumulated data (ABF grids, metadynamics grids + hills, histogram, extended-Lagrangian
// coordinate, moving restraint), cut at every offset: a cut inside an object's block is an error, no cut crashes, the module stays usable
#include "e2e.h"
#include <sstream>

static std::string STATE2;
static const char *CONF2 =
  "units real\ncolvarsTrajFrequency 0\n"
  "colvar {\n name d\n width 0.5\n lowerBoundary 1.0\n upperBoundary 2.0\n distance {\n group1 { atomNumbers 1 }\n group2 { atomNumbers 2 }\n }\n}\n"
  "colvar {\n name e\n width 0.5\n lowerBoundary 0.5\n upperBoundary 1.5\n distance {\n group1 { atomNumbers 3 }\n group2 { atomNumbers 4 }\n }\n}\n"
  "colvar {\n name g\n width 0.5\n extendedLagrangian on\n extendedTemp 300.0\n extendedFluctuation 0.25\n extendedTimeConstant 200.0\n extendedLangevinDamping 0.0\n"
  " distance {\n group1 { atomNumbers 1 }\n group2 { atomNumbers 3 }\n }\n}\n"
  "abf {\n name a\n colvars d\n fullSamples 2\n historyFreq 0\n}\n"
  "metadynamics {\n name m\n colvars e\n hillWeight 0.1\n hillWidth 2.0\n newHillFrequency 1\n keepHills on\n}\n"
  "histogram {\n name hg\n colvars e\n}\n"
  "harmonic {\n name h\n colvars g\n centers 2.0\n targetCenters 3.0\n targetNumSteps 10\n forceConstant 2.0\n outputAccumulatedWork on\n}\n";
static void place2(cvm::real x) { e2e_pos(0, 0.0, 0.0, 0.0); e2e_pos(1, x, 0.0, 0.0); e2e_pos(2, 0.0, 1.0, 0.0); e2e_pos(3, 0.0, 3.0 - x, 0.0); }
static void step2(int s, cvm::real x) {
  place2(x); px->colvars->it = s;
  for (int i = 0; i < 4; i++) (*px->modify_atom_total_forces())[i] = cvm::rvector(0.25 * (i + 1), -0.5, 0.125 * s);
  px->colvars->calc_colvars(); px->colvars->calc_biases(); px->colvars->update_colvar_forces();
}
extern "C" void h_c11o_setup() {
  e2e_make(4, CONF2);
  px->b_simulation_running = true;
  px->set_output_prefix("c11o"); px->colvars->setup_output();
  for (int s = 0; s < 3; s++) step2(s, 1.25 + 0.25 * s);
  verif_assert(cvm::get_error() == COLVARS_OK, "setup.ok");
  std::ostringstream os; px->colvars->write_state(os); STATE2 = os.str();
  verif_out_i64("state_length", (long) STATE2.size());
  int nblocks = 0; for (size_t i = 0; i < STATE2.size(); i++) if (STATE2[i] == '{') nblocks++;
  verif_out_i64("state_blocks", nblocks);
}
// the whole state reads back without error into the same module (sanity of the oracle: an uncut state is accepted)
extern "C" void h_c11o_whole() {
  verif_reach("whole");
  px->colvars->clear_error();
  std::istringstream is(STATE2);
  px->colvars->read_state(is);
  verif_assert(cvm::get_error() == COLVARS_OK, "whole.uncut_state_is_accepted");
  std::ostringstream os; px->colvars->write_state(os); std::string again = os.str();
  verif_text_equal(again.data(), (long) again.size(), STATE2.data(), (long) STATE2.size(), "whole.save_after_load_equals_loaded");
}
extern "C" void h_c11o_truncated() {
  int len = (int) STATE2.size();
  int cut = verif_choice("cut", len);
  verif_reach("truncated");
  std::string t = STATE2.substr(0, cut);
  int depth = 0; for (int i = 0; i < cut; i++) { if (t[i] == '{') depth++; if (t[i] == '}') depth--; }
  px->colvars->clear_error();
  std::istringstream is(t);
  px->colvars->read_state(is);
  int err = cvm::get_error();
  verif_out_i64("depth", depth); verif_out_i64("err", err);
  // the first block is the module-level "configuration { ... }" block, not an object's: cuts inside it are only required not to crash
  size_t first_close = STATE2.find('}');
  if (depth > 0 && (size_t) cut > first_close) verif_assert(err != COLVARS_OK, "truncated.cut_inside_object_block_is_error");
  px->colvars->clear_error();
  // still usable
  step2((int) px->colvars->it + 1, 1.5);
  px->colvars->clear_error();
}
