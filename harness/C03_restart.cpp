// C03: a run resumed from a saved state is indistinguishable from an uninterrupted run
#include "e2e.h"
#include <sstream>
#include "colvars_memstream.h"

#define MAXS 6
static const char *XS[MAXS] = {"x0","x1","x2","x3","x4","x5"};
static const char *YS[MAXS] = {"y0","y1","y2","y3","y4","y5"};
static const char *FS[MAXS] = {"tf0","tf1","tf2","tf3","tf4","tf5"};

struct traj { cvm::real x[MAXS], y[MAXS], tf[MAXS]; };
struct snap { cvm::real v[2], E[8], f[4][3], Etot; int nb; std::string state; };

static void fresh(const char *conf) {
  if (px) { delete px; px = nullptr; }
  px = new colvarproxy_stub();
  for (int i = 0; i < 4; i++) { px->init_atom(i + 1); px->atoms_masses[i] = E2E_MASS[i]; }
  px->b_simulation_running = true;
  int err = px->colvars->read_config_string(std::string(conf));
  verif_assert(err == COLVARS_OK, "config.ok");
}
static void run_steps(long from, long to, traj const &T) {
  for (long s = from; s <= to; s++) {
    e2e_pos(0, 0.0, 0.0, 0.0); e2e_pos(1, T.x[s], 0.0, 0.0); e2e_pos(2, 0.0, 1.0, 0.0); e2e_pos(3, 0.0, 1.0 + T.y[s], 0.0);
    for (int i = 0; i < 4; i++) { px->atoms_total_forces[i] = cvm::rvector(0.0, 0.0, 0.0); px->atoms_new_colvar_forces[i] = cvm::rvector(0.0, 0.0, 0.0); }   // as every engine does at the start of a step
    px->atoms_total_forces[1] = cvm::rvector(T.tf[s], 0.0, 0.0);
    px->colvars->it = s;
    int err = px->colvars->calc();
    verif_assert(err == COLVARS_OK && cvm::get_error() == COLVARS_OK, "step.no_error");
    px->colvars->clear_error();
  }
}
static void take(snap &S) {
  colvarmodule *cv = px->colvars;
  for (size_t i = 0; i < 2; i++) S.v[i] = (i < cv->variables()->size()) ? (*cv->variables())[i]->value().real_value : 0.0;
  S.nb = (int) cv->biases.size();
  for (int i = 0; i < 8; i++) S.E[i] = (i < S.nb) ? cv->biases[i]->get_energy() : 0.0;
  for (int a = 0; a < 4; a++) for (int k = 0; k < 3; k++) S.f[a][k] = px->atoms_new_colvar_forces[a][k];
  S.Etot = cv->total_bias_energy;
  std::ostringstream os; cv->write_state(os); S.state = os.str();
}
static void compare(snap const &A, snap const &C) {
  for (int i = 0; i < 2; i++) verif_assert_eq(A.v[i], C.v[i], "resumed.values");
  verif_assert(A.nb == C.nb, "resumed.same_biases");
  for (int i = 0; i < 8; i++) verif_assert_eq(A.E[i], C.E[i], "resumed.bias_energies");
  for (int a = 0; a < 4; a++) for (int k = 0; k < 3; k++) verif_assert_eq(A.f[a][k], C.f[a][k], "resumed.atom_forces");
  verif_assert_eq(A.Etot, C.Etot, "resumed.total_energy");
  verif_text_equal(A.state.data(), (long) A.state.size(), C.state.data(), (long) C.state.size(), "resumed.final_state");
}

// the scenario: uninterrupted run 0..N (which writes its state at step K on the way, as a run with a restart frequency does) against:
// fresh instance, state of step K loaded, run K..N
static void save_state(int binary, std::string &text, std::vector<unsigned char> &buf) {
  if (binary) { verif_assert(px->colvars->write_state_buffer(buf) == COLVARS_OK, "save.ok"); }
  else { std::ostringstream os; px->colvars->write_state(os); text = os.str(); verif_assert(bool(os), "save.ok"); }
}
static bool LAST_OUTSIDE = false;      // the last step is an excursion beyond the upper boundary of the grid
static void scenario(const char *conf, int N, int nK, int const *Ks, bool binned, cvm::real xlo, cvm::real xhi) {
  int K = Ks[verif_choice("stop_step", nK)];
  int binary = verif_choice("binary", 2);
  traj T;
  for (int s = 0; s <= N; s++) {
    T.x[s] = verif_sym_double(XS[s]);
    if (binned && LAST_OUTSIDE && s == N) {
      verif_assume((T.x[s] > 3.0625) & (T.x[s] < 3.4375));
    } else if (binned) {
      // grid biases: the bin visited at every step is chosen up front (bins [1.5, 2) and [2, 2.5) of a grid starting at 1 with width 0.5)
      int b = verif_choice(YS[s], 2);
      verif_assume((T.x[s] > 1.5 + 0.5 * b) & (T.x[s] < 2.0 + 0.5 * b));
    } else verif_assume((T.x[s] > xlo) & (T.x[s] < xhi));
    T.y[s] = 1.0;
    T.tf[s] = verif_sym_double(FS[s]);
  }
  verif_reach("scenario");
  snap A, C;
  std::string text; std::vector<unsigned char> buf;
  fresh(conf);
  run_steps(0, K, T); save_state(binary, text, buf);
  if (K < N) run_steps(K + 1, N, T);
  take(A);
  // fresh instance, same configuration, state loaded
  fresh(conf);
  if (binary) {
    cvm::memory_stream ms(buf.size(), buf.data());
    px->colvars->read_state(ms);
    verif_assert(bool(ms) && cvm::get_error() == COLVARS_OK, "load.ok");
  } else {
    std::istringstream is(text);
    px->colvars->read_state(is);
    verif_assert(cvm::get_error() == COLVARS_OK, "load.ok");
    // saving immediately after loading reproduces the state that was loaded
    std::ostringstream os2; px->colvars->write_state(os2); std::string again = os2.str();
    verif_text_equal(text.data(), (long) text.size(), again.data(), (long) again.size(), "save_after_load");
  }
  px->colvars->clear_error();
  verif_assert(px->colvars->it == K && px->colvars->it_restart == K, "load.step_number");
  run_steps(K, N, T); take(C);
  compare(A, C);
}

static const char *CONF_R1 =
  "units real\ncolvarsTrajFrequency 0\n"
  "colvar {\n name d\n width 0.5\n distance {\n group1 { atomNumbers 1 }\n group2 { atomNumbers 2 }\n }\n}\n"
  "harmonic {\n name hf\n colvars d\n centers 2.0\n forceConstant 2.0\n}\n"
  "harmonic {\n name hm\n colvars d\n centers 1.0\n targetCenters 3.0\n targetNumSteps 3\n forceConstant 1.5\n outputAccumulatedWork on\n outputCenters on\n}\n"
  "linear {\n name li\n colvars d\n centers 1.0\n forceConstant 0.5\n}\n";
extern "C" void h_c03_restraints_moving() { static const int Ks[5] = {0, 1, 2, 3, 4}; scenario(CONF_R1, 4, 5, Ks, false, 0.5, 4.0); }
static const char *CONF_R2 =
  "units real\ncolvarsTrajFrequency 0\n"
  "colvar {\n name d\n width 1.0\n distance {\n group1 { atomNumbers 1 }\n group2 { atomNumbers 2 }\n }\n}\n"
  "harmonic {\n name hs\n colvars d\n centers 1.0\n targetCenters 2.0\n targetNumSteps 2\n targetNumStages 2\n forceConstant 1.0\n}\n"
  "harmonic {\n name hk\n colvars d\n centers 1.5\n forceConstant 1.0\n targetForceConstant 3.0\n targetNumSteps 3\n outputAccumulatedWork on\n}\n";
extern "C" void h_c03_restraints_staged() { static const int Ks[5] = {0, 1, 2, 3, 4}; scenario(CONF_R2, 4, 5, Ks, false, 0.5, 4.0); }

static const char *CONF_E =
  "units real\ncolvarsTrajFrequency 0\n"
  "colvar {\n name d\n width 0.5\n extendedLagrangian on\n extendedTemp 300.0\n extendedFluctuation 0.25\n extendedTimeConstant 200.0\n extendedLangevinDamping 0.0\n"
  " distance {\n group1 { atomNumbers 1 }\n group2 { atomNumbers 2 }\n }\n}\n"
  "harmonic {\n name h\n colvars d\n centers 2.0\n forceConstant 2.0\n}\n";
extern "C" void h_c03_extended() { static const int Ks[4] = {0, 1, 2, 3}; scenario(CONF_E, 3, 4, Ks, false, 0.5, 4.0); }

static const char *CONF_A =
  "units real\ncolvarsTrajFrequency 0\n"
  "colvar {\n name d\n width 0.5\n lowerBoundary 1.0\n upperBoundary 3.0\n distance {\n group1 { atomNumbers 1 }\n group2 { atomNumbers 2 }\n }\n}\n"
  "abf {\n name a\n colvars d\n fullSamples 2\n historyFreq 0\n}\n";
extern "C" void h_c03_abf() { static const int Ks[2] = {1, 2}; scenario(CONF_A, 2, 2, Ks, true, 1.5, 2.5); }
extern "C" void h_c03_abf_long() { static const int Ks[3] = {1, 2, 3}; scenario(CONF_A, 3, 3, Ks, true, 1.5, 2.5); }

static const char *CONF_H =
  "units real\ncolvarsTrajFrequency 0\n"
  "colvar {\n name d\n width 0.5\n lowerBoundary 1.0\n upperBoundary 3.0\n distance {\n group1 { atomNumbers 1 }\n group2 { atomNumbers 2 }\n }\n}\n"
  "histogram {\n name hg\n colvars d\n}\n";
extern "C" void h_c03_histogram() { static const int Ks[3] = {0, 1, 2}; scenario(CONF_H, 2, 3, Ks, true, 1.5, 2.5); }

static const char *CONF_M =
  "units real\ncolvarsTrajFrequency 0\n"
  "colvar {\n name d\n width 0.5\n lowerBoundary 1.0\n upperBoundary 3.0\n distance {\n group1 { atomNumbers 1 }\n group2 { atomNumbers 2 }\n }\n}\n"
  "metadynamics {\n name m\n colvars d\n hillWeight 0.1\n hillWidth 2.0\n newHillFrequency 1\n useGrids off\n}\n";
extern "C" void h_c03_meta() { static const int Ks[3] = {0, 1, 2}; scenario(CONF_M, 2, 3, Ks, false, 1.25, 2.75); }

static const char *CONF_MG =
  "units real\ncolvarsTrajFrequency 0\n"
  "colvar {\n name d\n width 0.5\n lowerBoundary 1.0\n upperBoundary 3.0\n distance {\n group1 { atomNumbers 1 }\n group2 { atomNumbers 2 }\n }\n}\n"
  "metadynamics {\n name m\n colvars d\n hillWeight 0.1\n hillWidth 2.0\n newHillFrequency 1\n}\n";
// metadynamics with grids: hills near the boundary are kept for the analytic evaluation outside the grid; the last step leaves the grid
extern "C" void h_c03_meta_offgrid() { static const int Ks[2] = {1, 2}; LAST_OUTSIDE = true; scenario(CONF_MG, 3, 2, Ks, true, 1.5, 2.5); LAST_OUTSIDE = false; }

static const char *CONF_MK =
  "units real\ncolvarsTrajFrequency 0\n"
  "colvar {\n name d\n width 0.5\n lowerBoundary 1.0\n upperBoundary 3.0\n distance {\n group1 { atomNumbers 1 }\n group2 { atomNumbers 2 }\n }\n}\n"
  "metadynamics {\n name m\n colvars d\n hillWeight 0.1\n hillWidth 2.0\n newHillFrequency 1\n keepHills on\n}\n";
// metadynamics with grids and keepHills: the state carries the grids and the complete list of hills
extern "C" void h_c03_meta_keephills() { static const int Ks[2] = {1, 2}; scenario(CONF_MK, 2, 2, Ks, true, 1.5, 2.5); }

extern "C" void h_c03_setup() { px = nullptr; }
