// C02: variable values equal their mathematical definition and respect its symmetries
#include "e2e.h"
#define G1 "group1 { atomNumbers 1 2 3 }\n group2 { atomNumbers 4 5 }\n"
extern "C" void h_c02_setup() {
  e2e_make(6,
    "units real\ncolvarsTrajFrequency 0\n"
    "colvar {\n name d\n distance {\n " G1 " }\n}\n"
    "colvar {\n name d_perm\n distance {\n group1 { atomNumbers 3 1 2 }\n group2 { atomNumbers 5 4 }\n }\n}\n"
    "colvar {\n name d_dup\n distance {\n group1 { atomNumbers 1 2 3 1 }\n group2 { atomNumbers 4 5 5 4 }\n }\n}\n"
    "colvar {\n name d_dup2\n distance {\n group1 { atomNumbers 2 3\n atomNumbersRange 1-3\n }\n group2 { atomNumbers 4 5 }\n }\n}\n"
    "colvar {\n name dz\n distanceZ {\n main { atomNumbers 1 2 3 }\n ref { atomNumbers 4 5 }\n axis (1.0, 2.0, 2.0)\n }\n}\n"
    "colvar {\n name dxy\n distanceXY {\n main { atomNumbers 1 2 3 }\n ref { atomNumbers 4 5 }\n axis (1.0, 2.0, 2.0)\n }\n}\n"
    "colvar {\n name gyr\n gyration {\n atoms { atomNumbers 1 2 3 }\n }\n}\n"
    "colvar {\n name ine\n inertia {\n atoms { atomNumbers 1 2 3 }\n }\n}\n"
    "colvar {\n name dip\n dipoleMagnitude {\n atoms { atomNumbers 1 2 3 }\n }\n}\n"
    "colvar {\n name ang\n angle {\n group1 { atomNumbers 1 }\n group2 { atomNumbers 2 }\n group3 { atomNumbers 3 }\n }\n}\n"
    "colvar {\n name dih\n dihedral {\n group1 { atomNumbers 1 }\n group2 { atomNumbers 2 }\n group3 { atomNumbers 3 }\n group4 { atomNumbers 4 }\n }\n}\n"
    "colvar {\n name cn\n coordNum {\n group1 { atomNumbers 1 }\n group2 { atomNumbers 2 }\n cutoff 3.5\n }\n}\n"
    "colvar {\n name vec\n distanceVec {\n " G1 " }\n}\n");
}
__attribute__((noinline)) static cvm::real lit(cvm::real v) { return v; }   // keeps literal arithmetic out of the compiler's IEEE constant folder
static cvm::rvector P[6];
static void positions() { for (int i = 0; i < 6; i++) { P[i] = cvm::rvector(verif_sym_double(E2E_XN[i][0]), verif_sym_double(E2E_XN[i][1]), verif_sym_double(E2E_XN[i][2])); e2e_pos(i, P[i].x, P[i].y, P[i].z); } }
static cvm::rvector com(int a, int b) {     // mass-weighted centre of atoms a..b (independent of the library)
  cvm::rvector s(0.0, 0.0, 0.0); cvm::real m = 0.0;
  for (int i = a; i <= b; i++) { s += E2E_MASS[i] * P[i]; m += E2E_MASS[i]; }
  return s / m;
}
static cvm::rvector cog(int a, int b) { cvm::rvector s(0.0, 0.0, 0.0); for (int i = a; i <= b; i++) s += P[i]; return s / (cvm::real) (b - a + 1); }
static cvm::real val(const char *n) { return e2e_cv(n)->value().real_value; }
static cvm::real calc(const char *n) { colvar *cv = e2e_cv(n); cv->calc(); return cv->value().real_value; }   // only this variable is evaluated

// definitions (written from the reference manual); one variable per harness function keeps the terms small
extern "C" void h_c02_def_distances() {
  positions();
  verif_reach("def.distances");
  cvm::rvector c1 = com(0, 2), c2 = com(3, 4), dv = c2 - c1;
  cvm::real d = calc("d");
  verif_assert(d >= 0.0, "distance.nonneg");
  verif_assert_eq(d * d, dv.norm2(), "distance.is_norm_of_com_difference");
  cvm::rvector ax(lit(1.0) / lit(3.0), lit(2.0) / lit(3.0), lit(2.0) / lit(3.0));
  cvm::rvector dm = c1 - c2;                                        // main - ref
  verif_assert_eq(calc("dz"), dm * ax, "distanceZ.is_projection_on_axis");
  cvm::rvector perp = dm - (dm * ax) * ax;
  cvm::real dxy = calc("dxy");
  verif_assert(dxy >= 0.0, "distanceXY.nonneg");
  verif_assert_eq(dxy * dxy, perp.norm2(), "distanceXY.is_norm_of_orthogonal_part");
  e2e_cv("vec")->calc();
  cvm::rvector vv = e2e_cv("vec")->value().rvector_value;
  verif_assert_eq(vv.x, dv.x, "distanceVec.x"); verif_assert_eq(vv.y, dv.y, "distanceVec.y"); verif_assert_eq(vv.z, dv.z, "distanceVec.z");
}
extern "C" void h_c02_def_shape() {
  positions();
  verif_reach("def.shape");
  cvm::rvector g = cog(0, 2); cvm::real s2 = 0.0;
  for (int i = 0; i < 3; i++) s2 += (P[i] - g).norm2();
  cvm::real gyr = calc("gyr");
  verif_assert_eq(gyr * gyr, s2 / 3.0, "gyration.definition");
  verif_assert_eq(calc("ine"), s2, "inertia.definition");
  cvm::rvector mu(0.0, 0.0, 0.0);
  cvm::rvector cm = com(0, 2);
  for (int i = 0; i < 3; i++) mu += E2E_CHARGE[i] * (P[i] - cm);       // dipole about the centre of mass
  cvm::real dip = calc("dip");
  verif_assert_eq(dip * dip, mu.norm2(), "dipoleMagnitude.definition");
}
extern "C" void h_c02_def_angle() {
  positions();
  verif_reach("def.angle");
  cvm::rvector r21 = P[0] - P[1], r23 = P[2] - P[1];
  cvm::real cosang = (r21 * r23) / (cvm::sqrt(r21.norm2()) * cvm::sqrt(r23.norm2()));
  verif_assert_eq(calc("ang"), (180.0 / PI) * cvm::acos(cosang), "angle.definition");
}
extern "C" void h_c02_def_coordnum() {
  positions();
  verif_reach("def.coordnum");
  cvm::real cnv = 0.0;
  for (int j = 1; j <= 1; j++) { cvm::real l2 = (P[j] - P[0]).norm2() / (3.5 * 3.5); cvm::real x3 = l2 * l2 * l2; cnv += (1.0 - x3) / (1.0 - x3 * x3); }
  verif_assert_eq(calc("cn"), cnv, "coordNum.definition");
}

extern "C" void h_c02_dihedral() {
  // dihedral: atan2 of the documented triple products, on a slice (bond 2-3 along a rational direction)
  cvm::real L = verif_sym_double("L"); verif_assume(L > 0.0);
  for (int i = 0; i < 6; i++) P[i] = cvm::rvector(verif_sym_double(E2E_XN[i][0]), verif_sym_double(E2E_XN[i][1]), verif_sym_double(E2E_XN[i][2]));
  P[1] = cvm::rvector(0.0, 0.0, 0.0); P[2] = cvm::rvector(L * 2.0 / 7.0, L * 3.0 / 7.0, L * 6.0 / 7.0);
  for (int i = 0; i < 6; i++) e2e_pos(i, P[i].x, P[i].y, P[i].z);
  verif_reach("dihedral");
  calc("dih");
  cvm::rvector r12 = P[1] - P[0], r23 = P[2] - P[1], r34 = P[3] - P[2];
  cvm::rvector n1 = cvm::rvector::outer(r12, r23), n2 = cvm::rvector::outer(r23, r34);
  cvm::real cos_phi = n1 * n2, sin_phi = n1 * r34 * cvm::sqrt(r23.norm2());
  verif_assert_eq(val("dih"), (180.0 / PI) * cvm::atan2(sin_phi, cos_phi), "dihedral.definition");
}

// symmetries: the same variables evaluated on a transformed configuration
static const char *VN[9] = {"d", "dz", "dxy", "gyr", "ine", "dip", "ang", "cn", "d_perm"};
static void all_values(cvm::real *out, int which) { for (int i = 0; i < 9; i++) out[i] = (which < 0 || which == i) ? calc(VN[i]) : 0.0; }
extern "C" void h_c02_permutation_duplicates() {
  positions();
  verif_reach("permutation");
  cvm::real d = calc("d");
  verif_assert_eq(calc("d_perm"), d, "symmetry.atom_order_in_group");
  verif_assert_eq(calc("d_dup"), d, "symmetry.duplicate_listing");
  verif_assert_eq(calc("d_dup2"), d, "symmetry.duplicate_listing_via_range");
  verif_assert(e2e_cv("d_dup")->cvcs[0]->atom_groups[0]->size() == 3 && e2e_cv("d_dup")->cvcs[0]->atom_groups[1]->size() == 2, "duplicates.removed");
  verif_assert_eq(e2e_cv("d_dup")->cvcs[0]->atom_groups[0]->total_mass, E2E_MASS[0] + E2E_MASS[1] + E2E_MASS[2], "duplicates.total_mass");
}
extern "C" void h_c02_translation() {
  positions();
  int which = verif_choice("variable", 9);
  cvm::real v0[9], v1[9];
  all_values(v0, which);
  cvm::rvector t(verif_sym_double("tx"), verif_sym_double("ty"), verif_sym_double("tz"));
  for (int i = 0; i < 6; i++) e2e_pos(i, P[i].x + t.x, P[i].y + t.y, P[i].z + t.z);
  verif_reach("translation");
  all_values(v1, which);
  const char *lab[9] = {"translation.distance", "translation.distanceZ", "translation.distanceXY", "translation.gyration", "translation.inertia", "translation.dipoleMagnitude", "translation.angle", "translation.coordNum", "translation.distance_perm"};
  verif_assert_eq(v1[which], v0[which], lab[which]);
}
extern "C" void h_c02_rotation() {
  // proper rotation about the z axis, rational parametrisation (cos, sin) = ((1-u^2), 2u) / (1+u^2)
  positions();
  static const int rotinv[6] = {0, 3, 4, 5, 6, 7};
  int which = rotinv[verif_choice("variable", 6)];
  cvm::real v0[9], v1[9];
  all_values(v0, which);
  cvm::real u = verif_sym_double("u"); cvm::real c = (1.0 - u * u) / (1.0 + u * u), s = 2.0 * u / (1.0 + u * u);
  for (int i = 0; i < 6; i++) e2e_pos(i, c * P[i].x - s * P[i].y, s * P[i].x + c * P[i].y, P[i].z);
  verif_reach("rotation");
  all_values(v1, which);
  const char *rl[9] = {"rotation.distance", "", "", "rotation.gyration", "rotation.inertia", "rotation.dipoleMagnitude", "rotation.angle", "rotation.coordNum", ""};
  verif_assert_eq(v1[which], v0[which], rl[which]);
}
extern "C" void h_c02_lattice() {
  // minimum-image boundaries: translating one group by lattice vectors changes nothing (centres closer than half an edge)
  cvm::real Lc[3] = {20.0, 24.0, 30.0};
  px->boundaries_type = colvarproxy_system::boundaries_pbc_ortho;
  px->unit_cell_x = cvm::rvector(Lc[0], 0.0, 0.0); px->unit_cell_y = cvm::rvector(0.0, Lc[1], 0.0); px->unit_cell_z = cvm::rvector(0.0, 0.0, Lc[2]);
  px->update_pbc_lattice();
  positions();
  cvm::rvector dv = com(3, 4) - com(0, 2);
  verif_assume((dv.x > -9.0) & (dv.x < 9.0) & (dv.y > -11.0) & (dv.y < 11.0) & (dv.z > -14.0) & (dv.z < 14.0));
  cvm::real d0 = calc("d"), z0 = calc("dz");
  e2e_cv("vec")->calc();
  cvm::rvector w0 = e2e_cv("vec")->value().rvector_value;
  long n1 = verif_sym_int("n1", -2, 2), n2 = verif_sym_int("n2", -2, 2), n3 = verif_sym_int("n3", -2, 2);
  for (int i = 3; i <= 4; i++) e2e_pos(i, P[i].x + (cvm::real) n1 * Lc[0], P[i].y + (cvm::real) n2 * Lc[1], P[i].z + (cvm::real) n3 * Lc[2]);
  verif_reach("lattice");
  cvm::real d1 = calc("d");
  verif_assert_eq(calc("dz"), z0, "lattice.distanceZ");
  e2e_cv("vec")->calc();
  cvm::rvector w1 = e2e_cv("vec")->value().rvector_value;
  verif_assert_eq(w1.x, w0.x, "lattice.distanceVec.x"); verif_assert_eq(w1.y, w0.y, "lattice.distanceVec.y"); verif_assert_eq(w1.z, w0.z, "lattice.distanceVec.z");
  // the scalar distance is the norm of the same minimum-image vector (hence unchanged as well)
  verif_assert(d1 >= 0.0, "lattice.distance.nonneg");       // (d1^2 == |w1|^2 mixes integer lattice shifts with a square root: z3 returns unknown, not claimed)
}
