// C07: total-force measurement is the inverse of force application
#include "e2e.h"
struct tf_proxy : public colvarproxy_stub {
  bool same_step;
  tf_proxy(bool s) : colvarproxy_stub(), same_step(s) {}
  bool total_forces_same_step() const override { return same_step; }
};
#define PRE "units real\ncolvarsTrajFrequency 0\n"
#define HARM "harmonic {\n name h\n colvars v\n centers 2.5\n forceConstant 3.0\n}\n"
#define CV(extra, body) "colvar {\n name v\n width 0.5\n outputTotalForce on\n" extra body "}\n"

static void make(bool same, int natoms, const char *conf) {
  tf_proxy *p = new tf_proxy(same); px = p;
  for (int i = 0; i < natoms; i++) { p->init_atom(i + 1); p->atoms_masses[i] = E2E_MASS[i]; }
  p->set_target_temperature(300.0);
  e2e_config(conf);
}
static const char *TN[6][3] = {{"Tx0","Ty0","Tz0"},{"Tx1","Ty1","Tz1"},{"Tx2","Ty2","Tz2"},{"Tx3","Ty3","Tz3"},{"Tx4","Ty4","Tz4"},{"Tx5","Ty5","Tz5"}};
static const char *UN[6][3] = {{"Ux0","Uy0","Uz0"},{"Ux1","Uy1","Uz1"},{"Ux2","Uy2","Uz2"},{"Ux3","Uy3","Uz3"},{"Ux4","Uy4","Uz4"},{"Ux5","Uy5","Uz5"}};
static void set_tf(int n, cvm::rvector const *f) { for (int i = 0; i < n; i++) (*px->modify_atom_total_forces())[i] = f[i]; }
static cvm::real measure(int n, cvm::rvector const *f) {
  set_tf(n, f);
  px->colvars->calc_colvars();
  return e2e_cv("v")->total_force().real_value;
}

// same-step convention. ngroup = number of atoms belonging to the variable's groups (the last proxy atom is outside)
static void inverse_check(int natoms, int ngroup) {
  colvar *cv = e2e_cv("v");
  px->b_simulation_running = true;
  px->colvars->it = 3; px->colvars->it_restart = 0;
  cvm::rvector zero[6], F[6], T[6], U[6], S[6], O[6];
  // 1. let Colvars apply its forces for the current variable force f
  set_tf(natoms, zero);
  verif_assert(e2e_step() == COLVARS_OK, "apply.ok");
  cvm::real f = cv->applied_force().real_value;
  for (int i = 0; i < natoms; i++) { F[i] = px->atoms_new_colvar_forces[i]; px->atoms_new_colvar_forces[i] = cvm::rvector(0.0, 0.0, 0.0); }
  // 2. the atoms experience exactly those forces: the measurement returns f plus the Jacobian term
  cvm::real J = measure(natoms, zero);
  verif_assert_eq(J, cv->fj.real_value, "measure.zero_forces_give_jacobian_term");
  verif_assert_eq(measure(natoms, F), f + J, "measure.inverse_of_application");
  // 3. linear in the atomic forces; atoms outside the groups do not count
  cvm::real al = verif_sym_double("alpha");
  for (int i = 0; i < natoms; i++) {
    T[i] = cvm::rvector(verif_sym_double(TN[i][0]), verif_sym_double(TN[i][1]), verif_sym_double(TN[i][2]));
    U[i] = cvm::rvector(verif_sym_double(UN[i][0]), verif_sym_double(UN[i][1]), verif_sym_double(UN[i][2]));
    S[i] = T[i] + al * U[i];
    O[i] = (i >= ngroup) ? cvm::rvector(0.0, 0.0, 0.0) : T[i];
  }
  cvm::real fT = measure(natoms, T), fU = measure(natoms, U), fS = measure(natoms, S), fO = measure(natoms, O);
  verif_assert_eq(measure(natoms, T), fT, "measure.repeatable");
  verif_assert_eq(fS - J, (fT - J) + al * (fU - J), "measure.linear_in_atomic_forces");
  verif_assert_eq(fO, fT, "measure.ignores_atoms_outside_the_groups");
  verif_out_double("f", f); verif_out_double("J", J);
}

#define C07_CASE(NAME, NATOMS, NGROUP, CFG, POS, EXTRA) \
  extern "C" void h_c07_##NAME##_setup() { make(true, NATOMS, PRE CFG HARM); } \
  extern "C" void h_c07_##NAME() { POS; verif_reach(#NAME); inverse_check(NATOMS, NGROUP); EXTRA; }

// documented Jacobian terms: kT * (2/r), 0, kT * (1/r)
C07_CASE(distance, 4, 3, CV("", "distance {\n group1 { atomNumbers 1 2 }\n group2 { atomNumbers 3 }\n }\n"), e2e_free_positions(4),
  { cvm::real r = e2e_cv("v")->value().real_value; verif_assert_eq(e2e_cv("v")->fj.real_value * r, 2.0 * px->boltzmann() * 300.0, "jacobian.distance_is_2kT_over_r"); })
C07_CASE(distance_onesite, 4, 3, CV("", "distance {\n group1 { atomNumbers 1 2 }\n group2 { atomNumbers 3 }\n oneSiteTotalForce on\n }\n"), e2e_free_positions(4), ;)
C07_CASE(distancez, 4, 3, CV("", "distanceZ {\n main { atomNumbers 1 2 }\n ref { atomNumbers 3 }\n axis (1.0, 2.0, 2.0)\n }\n"), e2e_free_positions(4),
  verif_assert_eq(e2e_cv("v")->fj.real_value, 0.0, "jacobian.distanceZ_is_zero"))
C07_CASE(distancexy, 4, 3, CV("", "distanceXY {\n main { atomNumbers 1 2 }\n ref { atomNumbers 3 }\n }\n"), e2e_free_positions(4),
  { cvm::real r = e2e_cv("v")->value().real_value; verif_assert_eq(e2e_cv("v")->fj.real_value * r, px->boltzmann() * 300.0, "jacobian.distanceXY_is_kT_over_r"); })
C07_CASE(gyration, 4, 3, CV("", "gyration {\n atoms { atomNumbers 1 2 3 }\n }\n"), e2e_free_positions(4), ;)
C07_CASE(combo, 5, 4, CV("", "distance {\n name a\n componentCoeff 1.0\n group1 { atomNumbers 1 }\n group2 { atomNumbers 2 }\n }\n distance {\n name b\n componentCoeff -1.0\n group1 { atomNumbers 3 }\n group2 { atomNumbers 4 }\n }\n"), e2e_free_positions(5), ;)
static void angle_slice() {
  cvm::real L1 = verif_sym_double("L1"), L3 = verif_sym_double("L3"); verif_assume(L1 > 0.0 && L3 > 0.0);
  e2e_pos(0, L1 * 2.0 / 7.0, L1 * 3.0 / 7.0, L1 * 6.0 / 7.0); e2e_pos(1, 0.0, 0.0, 0.0); e2e_pos(2, L3 * 1.0 / 9.0, L3 * 4.0 / 9.0, L3 * 8.0 / 9.0);
  e2e_pos(3, verif_sym_double("x3"), verif_sym_double("y3"), verif_sym_double("z3"));
}
#undef HARM
#define HARM "harmonic {\n name h\n colvars v\n centers 100.0\n forceConstant 3.0\n}\n"
C07_CASE(angle, 4, 3, CV("", "angle {\n group1 { atomNumbers 1 }\n group2 { atomNumbers 2 }\n group3 { atomNumbers 3 }\n }\n"), angle_slice(), ;)
C07_CASE(angle_onesite, 4, 3, CV("", "angle {\n group1 { atomNumbers 1 }\n group2 { atomNumbers 2 }\n group3 { atomNumbers 3 }\n oneSiteTotalForce on\n }\n"), angle_slice(), ;)
static void dihedral_slice() {
  cvm::real L = verif_sym_double("L"); verif_assume(L > 0.0);
  e2e_pos(0, verif_sym_double("x0"), verif_sym_double("y0"), verif_sym_double("z0"));
  e2e_pos(1, 0.0, 0.0, 0.0); e2e_pos(2, L * 2.0 / 7.0, L * 3.0 / 7.0, L * 6.0 / 7.0);
  e2e_pos(3, verif_sym_double("x3"), verif_sym_double("y3"), verif_sym_double("z3"));
  e2e_pos(4, verif_sym_double("x4"), verif_sym_double("y4"), verif_sym_double("z4"));
}
C07_CASE(dihedral, 5, 4, CV("", "dihedral {\n group1 { atomNumbers 1 }\n group2 { atomNumbers 2 }\n group3 { atomNumbers 3 }\n group4 { atomNumbers 4 }\n }\n"),
  { dihedral_slice(); }, verif_assert_eq(e2e_cv("v")->fj.real_value, 0.0, "jacobian.dihedral_is_zero"))

// ---- lagged convention: the force reported at a step is the one exerted at the previous step, in that step's geometry;
//      subtractAppliedForce removes exactly the force Colvars applied then
#undef HARM
#define HARM "harmonic {\n name h\n colvars v\n centers 2.5\n forceConstant 3.0\n}\n"
static void lagged(bool subtract) {
  colvar *cv = e2e_cv("v");
  px->b_simulation_running = true;
  cvm::rvector zero[4], F[4], T[4];
  // step A
  e2e_pos(0, 0.0, 0.0, 0.0); e2e_pos(1, 0.0, 0.0, 0.0); e2e_pos(2, verif_sym_double("xA"), 0.0, 0.0); e2e_pos(3, 1.0, 1.0, 1.0);
  verif_assume((*px->modify_atom_positions())[2].x > 0.0);
  px->colvars->it = 4; px->colvars->it_restart = 0;
  set_tf(4, zero);
  verif_assert(e2e_step() == COLVARS_OK, "lagged.stepA_ok");
  cvm::real fA = cv->applied_force().real_value, rA = cv->value().real_value;
  for (int i = 0; i < 4; i++) { F[i] = px->atoms_new_colvar_forces[i]; px->atoms_new_colvar_forces[i] = cvm::rvector(0.0, 0.0, 0.0); }
  cv->end_of_step();
  // step B: new geometry; the engine reports the forces exerted during step A (Colvars' own forces plus others)
  e2e_pos(2, verif_sym_double("xB"), 0.0, 0.0);
  verif_assume((*px->modify_atom_positions())[2].x > 0.0);
  px->colvars->it = 5;
  for (int i = 0; i < 4; i++) T[i] = F[i] + cvm::rvector(verif_sym_double(TN[i][0]), 0.0, 0.0);
  set_tf(4, T);
  verif_reach(subtract ? "lagged.subtract" : "lagged");
  px->colvars->calc_colvars();
  cvm::real other = 0.5 * ((T[2].x - F[2].x) - ((T[0].x - F[0].x) + (T[1].x - F[1].x)));       // two-site projection: group forces are sums over atoms
  cvm::real JA = 2.0 * px->boltzmann() * 300.0 / rA;                                      // Jacobian term of step A's geometry
  // (a measured total force that is exactly zero is taken by the library as "not measured": excluded)
  verif_assume(fA + JA + other != 0.0);
  verif_assert_eq(cv->total_force().real_value, (subtract ? 0.0 : fA) + JA + other, "lagged.total_force_refers_to_previous_step");
}
extern "C" void h_c07_lagged_setup() { make(false, 4, PRE CV("", "distance {\n group1 { atomNumbers 1 2 }\n group2 { atomNumbers 3 }\n }\n") HARM); }
extern "C" void h_c07_lagged() { lagged(false); }
extern "C" void h_c07_lagged_sub_setup() { make(false, 4, PRE CV(" subtractAppliedForce on\n", "distance {\n group1 { atomNumbers 1 2 }\n group2 { atomNumbers 3 }\n }\n") HARM); }
extern "C" void h_c07_lagged_sub() { lagged(true); }

// ---- rotated frame: with the fitted rotation replaced by an arbitrary unit quaternion (the fit itself is not executed),
//      forces applied from the rotated frame and read back into it are inverse operations
extern "C" void h_c07_rotframe_setup() {
  make(true, 4, PRE "colvar {\n name v\n width 0.5\n distanceZ {\n main { atomNumbers 1 2 3\n centerToReference on\n rotateToReference on\n refPositions (0.5, 0.0, 0.0) (0.0, 1.0, 0.0) (0.0, 0.0, 2.0)\n }\n ref { dummyAtom (0.0, 0.0, 0.0) }\n }\n}\n");
}
extern "C" void h_c07_rotframe() {
  colvar *cv = e2e_cv("v");
  cvm::atom_group *ag = cv->cvcs[0]->atom_groups[0];
  verif_assert(ag->is_enabled(colvardeps::f_ag_rotate), "rotframe.group_is_rotated");
  // arbitrary unit quaternion by stereographic parametrisation
  cvm::real a = verif_sym_double("qa"), b = verif_sym_double("qb"), c = verif_sym_double("qc");
  cvm::real s = a * a + b * b + c * c;
  ag->rot.q = cvm::quaternion((1.0 - s) / (1.0 + s), 2.0 * a / (1.0 + s), 2.0 * b / (1.0 + s), 2.0 * c / (1.0 + s));
  const char *gn[3][3] = {{"gx0","gy0","gz0"},{"gx1","gy1","gz1"},{"gx2","gy2","gz2"}};
  cvm::rvector g[3];
  for (int i = 0; i < 3; i++) { g[i] = cvm::rvector(verif_sym_double(gn[i][0]), verif_sym_double(gn[i][1]), verif_sym_double(gn[i][2])); (*ag)[i].grad = g[i]; }
  bool fitgrad = ag->is_enabled(colvardeps::f_ag_fit_gradients);
  ag->disable(colvardeps::f_ag_fit_gradients);          // only the frame rotation is examined here
  cvm::real f = verif_sym_double("f");
  verif_reach("rotframe");
  ag->apply_colvar_force(f);
  for (int i = 0; i < 3; i++) (*px->modify_atom_total_forces())[i] = px->atoms_new_colvar_forces[i];
  ag->read_total_forces();
  for (int i = 0; i < 3; i++) {
    cvm::rvector tf = (*ag)[i].total_force;
    verif_assert_eq(tf.x, f * g[i].x, "rotframe.read_is_inverse_of_apply.x");
    verif_assert_eq(tf.y, f * g[i].y, "rotframe.read_is_inverse_of_apply.y");
    verif_assert_eq(tf.z, f * g[i].z, "rotframe.read_is_inverse_of_apply.z");
  }
  // and the applied lab-frame force has the same length as the frame force (a rotation)
  verif_assert_eq(px->atoms_new_colvar_forces[0].norm2(), f * f * g[0].norm2(), "rotframe.applied_force_is_rotated");
  (void) fitgrad;
}
