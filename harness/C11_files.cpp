// C11 (a) replacing a state file keeps a complete state on disk at every instant; (d) a text state cut inside a block is an error
#include "e2e.h"
#include <fstream>
#include <sstream>

static std::string STATE;
static const char *CONF =
  "units real\ncolvarsTrajFrequency 0\n"
  "colvar {\n name d\n width 0.5\n distance {\n group1 { atomNumbers 1 }\n group2 { atomNumbers 2 }\n }\n}\n"
  "colvar {\n name e\n width 0.5\n distance {\n group1 { atomNumbers 3 }\n group2 { atomNumbers 4 }\n }\n}\n"
  "harmonic {\n name h\n colvars d e\n centers 2.0 1.0\n targetCenters 3.0 2.0\n targetNumSteps 10\n forceConstant 2.0\n outputAccumulatedWork on\n}\n";
static void place(cvm::real x) { e2e_pos(0, 0.0, 0.0, 0.0); e2e_pos(1, x, 0.0, 0.0); e2e_pos(2, 0.0, 1.0, 0.0); e2e_pos(3, 0.0, 2.5, 0.0); }
extern "C" void h_c11f_setup() {
  e2e_make(4, CONF);
  px->b_simulation_running = true;
  px->set_output_prefix("c11s"); px->colvars->setup_output();
  for (int s = 0; s < 3; s++) { place(1.5 + 0.25 * s); px->colvars->it = s; px->colvars->calc_colvars(); px->colvars->calc_biases(); px->colvars->update_colvar_forces(); }
  std::ostringstream os; px->colvars->write_state(os); STATE = os.str();
  verif_out_i64("state_length", (long) STATE.size());
}
// ---- (a) the state file is replaced three times; the operation trace is examined at every crash point -----------------------------------
extern "C" void h_c11f_crash() {
  int which = verif_choice("file", 2);
  const char *name = which ? "c11s.colvars.state" : "other.colvars.state";
  std::string old = std::string(name) + ".old";
  verif_reach("crash");
  verif_fs_trace_begin();
  for (int k = 0; k < 3; k++) {
    place(2.0 + 0.125 * k); px->colvars->it = 3 + k; px->colvars->calc_colvars(); px->colvars->calc_biases(); px->colvars->update_colvar_forces();
    int err = px->colvars->write_restart_file(std::string(name));
    verif_assert(err == COLVARS_OK && cvm::get_error() == COLVARS_OK, "replace.no_error");
    // when the call returns the new state is complete on disk, and from the second time on the previous one is kept as .old
    verif_assert(verif_fs_complete(name) != 0, "replace.new_state_complete_on_return");
    if (k > 0) verif_assert(verif_fs_complete(old.c_str()) != 0, "replace.previous_state_kept");
    std::ostringstream os; px->colvars->write_state(os); std::string mem = os.str();
    std::ifstream is(name); std::string disk; { char c; while (is.get(c)) disk.push_back(c); }
    verif_assert(is.is_open() && disk.size() == mem.size(), "replace.file_holds_exactly_one_state");
    verif_text_equal(disk.data(), (long) disk.size(), mem.data(), (long) mem.size(), "replace.file_equals_state");
  }
  // every crash point of the recorded trace (before each file operation and inside each write) from the first completed state on
  verif_assert(verif_fs_crash_consistent(name, old.c_str()) == 0, "crash.some_complete_state_at_every_instant");
}
// ---- (d) text state truncated at every offset --------------------------------------------------------------------------------------------
extern "C" void h_c11f_truncated() {
  int len = (int) STATE.size();
  int cut = verif_choice("cut", len);
  verif_reach("truncated");
  std::string t = STATE.substr(0, cut);
  int depth = 0; for (int i = 0; i < cut; i++) { if (t[i] == '{') depth++; if (t[i] == '}') depth--; }
  px->colvars->clear_error();
  std::istringstream is(t);
  px->colvars->read_state(is);
  int err = cvm::get_error();
  verif_out_i64("depth", depth); verif_out_i64("err", err);
  // the first block is the module-level "configuration { ... }" block, not an object's: cuts inside it are only required not to crash
  size_t first_close = STATE.find('}');
  if (depth > 0 && (size_t) cut > first_close) verif_assert(err != COLVARS_OK, "truncated.cut_inside_object_block_is_error");
  px->colvars->clear_error();
  // still usable
  place(2.0); px->colvars->it = px->colvars->it + 1; px->colvars->calc_colvars(); px->colvars->calc_biases();
  px->colvars->clear_error();
}
