// C17: extended-Lagrangian coordinates follow the documented (BAOA) integrator
#include "e2e.h"
struct el_proxy : public colvarproxy_stub {
  cvm::real rnd;
  el_proxy() : colvarproxy_stub(), rnd(0.0) {}
  cvm::real rand_gaussian(void) override { return rnd; }      // controlled random source
};
#define ELCV(name, extra) "colvar {\n name " name "\n width 0.5\n lowerBoundary 1.0\n upperBoundary 6.0\n extendedLagrangian on\n extendedFluctuation 0.25\n extendedTimeConstant 200.0\n extendedTemp 300.0\n" extra " distance {\n group1 { atomNumbers 1 }\n group2 { atomNumbers 2 }\n }\n}\n"
extern "C" void h_c17_setup() {
  el_proxy *p = new el_proxy(); px = p;
  for (int i = 0; i < 2; i++) p->init_atom(i + 1);
  p->set_integration_timestep(2.0);
  e2e_config("units real\ncolvarsTrajFrequency 0\n"
    ELCV("e", " extendedLangevinDamping 0.0\n")
    ELCV("el", " extendedLangevinDamping 5.0\n")
    ELCV("e2", " extendedLangevinDamping 5.0\n timeStepFactor 2\n")
    ELCV("er", " extendedLangevinDamping 0.0\n reflectingLowerBoundary on\n reflectingUpperBoundary on\n"));
}
// literals are passed through a call so that the compiler does not fold products of literals in IEEE arithmetic
__attribute__((noinline)) static cvm::real lit(cvm::real v) { return v; }
static void place(cvm::real x) { e2e_pos(0, 0.0, 0.0, 0.0); e2e_pos(1, x, 0.0, 0.0); }

struct st { cvm::real x, xe, ve, m, k, dt, fb, fba; };
static st prep(colvar *cv, bool ad) {
  st s;
  s.x = verif_sym_double("x"); verif_assume(s.x > 0.0 && s.x < 100.0);
  place(s.x);
  px->b_simulation_running = true;
  px->colvars->it = 7; px->colvars->it_restart = 0;
  cv->prev_timestep = 7 - cv->time_step_factor;                      // awake on schedule
  px->colvars->calc_colvars();
  s.xe = ad ? verif_sym_double_ad("xe") : verif_sym_double("xe"); s.ve = ad ? verif_sym_double_ad("ve") : verif_sym_double("ve");
  s.m = verif_sym_double("m"); s.k = verif_sym_double("k"); s.dt = verif_sym_double("dt");
  verif_assume(s.m > 0.0 && s.k > 0.0 && s.dt > 0.0);
  s.fb = verif_sym_double("fb"); s.fba = verif_sym_double("fb_actual");
  cv->x_ext = colvarvalue(s.xe); cv->v_ext = colvarvalue(s.ve); cv->ext_mass = s.m; cv->ext_force_k = s.k;
  px->timestep_ = s.dt;
  cv->fb = colvarvalue(s.fb); cv->fb_actual = colvarvalue(s.fba);
  return s;
}

// friction-free step: kicks, energies at time t, drift; forces routed to the extended coordinate / the atoms
extern "C" void h_c17_step() {
  colvar *cv = e2e_cv("e");
  st s = prep(cv, true);
  verif_reach("step");
  cvm::real E = cv->update_forces_energy();
  cvm::real fsys = -s.k * (s.xe - s.x), fext = s.fb + fsys;
  cvm::real vh = s.ve + 0.5 * s.dt * fext / s.m, v1 = s.ve + s.dt * fext / s.m;
  verif_assert_eq(cv->v_ext.real_value, v1, "step.velocity_full_kick");
  verif_assert_eq(cv->x_ext.real_value, s.xe + s.dt * v1, "step.position_drift");
  verif_assert_eq(cv->kinetic_energy, 0.5 * s.m * vh * vh, "step.kinetic_energy_at_time_t");
  verif_assert_eq(cv->potential_energy, 0.5 * s.k * (s.xe - s.x) * (s.xe - s.x), "step.potential_energy_at_time_t");
  verif_assert_eq(E, cv->kinetic_energy + cv->potential_energy, "step.returned_energy");
  // the atoms feel the coupling spring plus the biases that bypass the extended coordinate, nothing else
  verif_assert_eq(cv->f.real_value, s.k * (s.xe - s.x) + s.fba, "step.force_on_atoms");
  verif_assert_eq(cv->ft_reported.real_value, fext, "step.reported_total_force");
  verif_assert_eq(cv->fr.real_value, s.fb, "step.reported_bias_force");
  // symplectic: the map (x_ext, v_ext) -> (x_ext', v_ext') has unit Jacobian determinant
  cvm::real a = verif_deriv(cv->x_ext.real_value, "xe"), b = verif_deriv(cv->x_ext.real_value, "ve");
  cvm::real c = verif_deriv(cv->v_ext.real_value, "xe"), d = verif_deriv(cv->v_ext.real_value, "ve");
  verif_assert_eq(a * d - b * c, 1.0, "step.phase_space_volume_preserved");
  verif_out_double("x_ext", cv->x_ext.real_value);
}

// friction and noise (O step) with a controlled random variate; time-step factor
static void langevin(const char *name, cvm::real tsf) {
  colvar *cv = e2e_cv(name);
  st s = prep(cv, false);
  cvm::real g = verif_sym_double("gamma"), sig = verif_sym_double("sigma"), rnd = verif_sym_double("rnd");
  verif_assume(g > 0.0);
  cv->ext_gamma = g; cv->ext_sigma = sig; static_cast<el_proxy *>(px)->rnd = rnd;
  verif_reach(name);
  cv->update_forces_energy();
  cvm::real dt = s.dt * tsf;
  cvm::real fsys = -s.k * (s.xe - s.x), fext = s.fb / tsf + fsys;
  cvm::real v1 = s.ve + dt * fext / s.m;
  cvm::real x1 = s.xe + 0.5 * dt * v1;
  cvm::real v2 = cvm::exp(-1.0 * dt * g) * v1 + sig * rnd / s.m;
  verif_assert_eq(cv->v_ext.real_value, v2, "langevin.velocity");
  verif_assert_eq(cv->x_ext.real_value, x1 + 0.5 * dt * v2, "langevin.position");
  verif_assert_eq(cv->f.real_value, tsf * s.k * (s.xe - s.x) + s.fba, "langevin.force_on_atoms_scaled_by_time_step_factor");
}
extern "C" void h_c17_langevin() { langevin("el", 1.0); }
extern "C" void h_c17_langevin_mts() { langevin("e2", 2.0); }

// noise amplitude from the configured parameters (slow time step for timeStepFactor > 1)
extern "C" void h_c17_params() {
  verif_reach("params");
  cvm::real kT = px->boltzmann() * lit(300.0);
  const char *nm[2] = {"el", "e2"};
  for (int i = 0; i < 2; i++) {
    colvar *cv = e2e_cv(nm[i]);
    cvm::real tsf = i ? 2.0 : 1.0;
    cvm::real tol = lit(0.25), per = lit(200.0), gam = lit(5.0) * lit(1.0e-3), pi = lit(PI);
    verif_assert_eq(cv->ext_force_k, kT / (tol * tol), i ? "params.force_constant.mts" : "params.force_constant");
    verif_assert_eq(cv->ext_mass, (kT * per * per) / (4.0 * PI * PI * tol * tol)   /* the literal product 4 PI PI is folded by the compiler exactly as in the library */, i ? "params.mass.mts" : "params.mass");
    verif_assert_eq(cv->ext_gamma, gam, i ? "params.gamma.mts" : "params.gamma");
    verif_assert_eq(cv->ext_sigma * cv->ext_sigma, (1.0 - cvm::exp(lit(-2.0) * gam * lit(2.0) * tsf)) * cv->ext_mass * kT, i ? "params.sigma.mts" : "params.sigma");
  }
}

// reflecting boundaries: the coordinate never lies outside when no error is raised
extern "C" void h_c17_reflect() {
  colvar *cv = e2e_cv("er");
  st s = prep(cv, false);
  verif_assume(s.xe >= 1.0 && s.xe <= 6.0);
  verif_reach("reflect");
  int err0 = cvm::get_error();
  cv->update_forces_energy();
  cvm::real fext = s.fb - s.k * (s.xe - s.x);
  cvm::real v1 = s.ve + s.dt * fext / s.m, x1 = s.xe + s.dt * v1;
  bool err = cvm::get_error() != err0;
  verif_assert(err || (cv->x_ext.real_value >= 1.0 && cv->x_ext.real_value <= 6.0), "reflect.inside_unless_error");
  cvm::real xr = x1 < 1.0 ? 2.0 - x1 : (x1 > 6.0 ? 12.0 - x1 : x1);
  cvm::real vr = (x1 < 1.0 || x1 > 6.0) ? -0.5 * (s.ve + v1) : v1;
  verif_assert_eq(cv->x_ext.real_value, xr, "reflect.position");
  verif_assert_eq(cv->v_ext.real_value, vr, "reflect.velocity");
  verif_assert(err == (xr < 1.0 || xr > 6.0), "reflect.error_iff_still_outside");
}

// repeating a step at a run boundary does not advance the coordinate twice
extern "C" void h_c17_repeat() {
  colvar *cv = e2e_cv("e");
  st s = prep(cv, false);
  verif_reach("repeat");
  cv->update_forces_energy();
  cvm::real x1 = cv->x_ext.real_value, v1 = cv->v_ext.real_value;
  cv->end_of_step();
  // the engine evaluates the same step again (same coordinates) as the first step of a new run segment
  px->colvars->it_restart = 0;
  px->colvars->calc_colvars();
  verif_assert_eq(cv->x_ext.real_value, s.xe, "repeat.position_reverted");
  verif_assert_eq(cv->v_ext.real_value, s.ve, "repeat.velocity_reverted");
  verif_assert_eq(cv->value().real_value, s.xe, "repeat.reported_value_is_start_of_step");
  cv->fb = colvarvalue(s.fb); cv->fb_actual = colvarvalue(s.fba);
  cv->update_forces_energy();
  verif_assert_eq(cv->x_ext.real_value, x1, "repeat.same_position_as_single_update");
  verif_assert_eq(cv->v_ext.real_value, v1, "repeat.same_velocity_as_single_update");
}
