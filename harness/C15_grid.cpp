// C15: every sample lands in exactly one grid bin; grid files round-trip
#include "e2e.h"
#include "colvargrid.h"
#include <sstream>

extern "C" void h_c15_setup() {
  e2e_make(6,
    "units real\ncolvarsTrajFrequency 0\n"
    "colvar {\n name d\n width 0.5\n lowerBoundary 1.0\n upperBoundary 3.0\n distance {\n group1 { atomNumbers 1 }\n group2 { atomNumbers 2 }\n }\n}\n"
    "colvar {\n name z\n width 0.25\n lowerBoundary -0.5\n upperBoundary 0.25\n distanceZ {\n main { atomNumbers 3 }\n ref { atomNumbers 4 }\n }\n}\n"
    "colvar {\n name p\n width 90.0\n lowerBoundary -180.0\n upperBoundary 180.0\n distanceZ {\n main { atomNumbers 5 }\n ref { atomNumbers 6 }\n period 360.0\n }\n}\n"
    "histogram {\n name h1\n colvars d\n}\n"
    "histogram {\n name h2\n colvars z p\n}\n"
    "histogram {\n name h3\n colvars d\n grid {\n lowerBoundary 0.5\n upperBoundary 2.0\n width 0.75\n }\n}\n"
    "histogram {\n name h4\n colvars d\n grid {\n width 1.0\n }\n}\n"
    "histogram {\n name h5\n colvars d\n grid {\n width 0.25\n }\n}\n");
}

static void place(cvm::real dval, cvm::real zval, cvm::real pval) {
  // each variable's value is one coordinate (no square roots): d = |x2 - x1| along x with x2 > x1
  e2e_pos(0, 0.0, 0.0, 0.0); e2e_pos(1, dval, 0.0, 0.0);
  e2e_pos(2, 0.0, 0.0, zval); e2e_pos(3, 0.0, 0.0, 0.0);
  e2e_pos(4, 0.0, 0.0, pval); e2e_pos(5, 0.0, 0.0, 0.0);
}
static const char *CN[16] = {"c0","c1","c2","c3","c4","c5","c6","c7","c8","c9","c10","c11","c12","c13","c14","c15"};

// one update of a 1-D histogram from an arbitrary pre-state: exactly the containing bin grows by one at an eligible step
extern "C" void h_c15_hist1d() {
  colvarbias_histogram *h = dynamic_cast<colvarbias_histogram *>(e2e_bias("h1"));
  verif_assert(h->grid->number_of_points() == 4, "h1.nbins");
  cvm::real pre[4];
  for (int i = 0; i < 4; i++) { pre[i] = verif_sym_double(CN[i]); h->grid->data[i] = pre[i]; }
  cvm::real v = verif_sym_double("v");
  verif_assume(v > 0.0 && v < 1000.0);
  place(v, 0.0, 0.0);
  int sched = verif_choice("schedule", 3);      // (step, first step of run): later step / first step of a run / very first step
  px->colvars->it = sched == 2 ? 0 : 5; px->colvars->it_restart = sched == 0 ? 0 : px->colvars->it;
  bool eligible = (sched == 0);
  verif_reach("hist1d");
  int e = px->colvars->calc_colvars(); e |= px->colvars->calc_biases();
  verif_assert(e == COLVARS_OK, "hist1d.step_ok");
  verif_assert_eq(e2e_cv("d")->value().real_value, v, "hist1d.value");
  cvm::real total = 0.0;
  for (int i = 0; i < 4; i++) {
    bool in_bin = (v >= 1.0 + 0.5 * i) && (v < 1.0 + 0.5 * (i + 1));
    cvm::real expect = pre[i] + ((eligible && in_bin) ? 1.0 : 0.0);
    verif_assert_eq(h->grid->data[i], expect, i == 0 ? "hist1d.bin0" : i == 1 ? "hist1d.bin1" : i == 2 ? "hist1d.bin2" : "hist1d.bin3");
    total += h->grid->data[i] - pre[i];
  }
  verif_assert_eq(total, (eligible && v >= 1.0 && v < 3.0) ? 1.0 : 0.0, "hist1d.total_is_in_range_samples");
  verif_out_double("total", total);
}

// custom grid block: boundaries / width come from the histogramGrid block, not from the variable
extern "C" void h_c15_hist_custom() {
  colvarbias_histogram *h = dynamic_cast<colvarbias_histogram *>(e2e_bias("h3"));
  verif_assert(h->grid->number_of_points() == 2, "h3.nbins");
  cvm::real pre[2];
  for (int i = 0; i < 2; i++) { pre[i] = verif_sym_double(CN[i]); h->grid->data[i] = pre[i]; }
  cvm::real v = verif_sym_double("v");
  verif_assume(v > 0.0 && v < 1000.0);
  place(v, 0.0, 0.0);
  px->colvars->it = 5; px->colvars->it_restart = 0;
  verif_reach("hist_custom");
  int e = px->colvars->calc_colvars(); e |= px->colvars->calc_biases();
  for (int i = 0; i < 2; i++) {
    bool in_bin = (v >= 0.5 + 0.75 * i) && (v < 0.5 + 0.75 * (i + 1));
    verif_assert_eq(h->grid->data[i], pre[i] + (in_bin ? 1.0 : 0.0), i == 0 ? "hist_custom.bin0" : "hist_custom.bin1");
  }
}

// custom grid block that changes only the width (coarser / finer than the variable's own): the number of bins follows the new width
static void custom_width(const char *bias, int nb, cvm::real w, const char *lnb, const char *lsz, const char *lbin, const char *ltot) {
  colvarbias_histogram *h = dynamic_cast<colvarbias_histogram *>(e2e_bias(bias));
  verif_assert((int) h->grid->number_of_points() == nb, lnb);
  verif_assert((int) h->grid->data.size() == nb, lsz);
  cvm::real pre[8];
  for (int i = 0; i < nb && i < (int) h->grid->data.size(); i++) { pre[i] = verif_sym_double(CN[i]); h->grid->data[i] = pre[i]; }
  cvm::real v = verif_sym_double("v");
  verif_assume(v > 0.0 && v < 1000.0);
  place(v, 0.0, 0.0);
  px->colvars->it = 5; px->colvars->it_restart = 0;
  verif_reach(bias);
  int e = px->colvars->calc_colvars(); e |= px->colvars->calc_biases();
  cvm::real total = 0.0;
  for (int i = 0; i < nb && i < (int) h->grid->data.size(); i++) {
    bool in_bin = (v >= 1.0 + w * i) & (v < 1.0 + w * (i + 1));
    verif_assert_eq(h->grid->data[i], pre[i] + (in_bin ? 1.0 : 0.0), lbin);
    total += h->grid->data[i] - pre[i];
  }
  verif_assert_eq(total, ((v >= 1.0) & (v < 3.0)) ? 1.0 : 0.0, ltot);
}
extern "C" void h_c15_hist_coarser() { custom_width("h4", 2, 1.0, "h4.nbins", "h4.data_size", "hist_coarser.bin", "hist_coarser.total_is_in_range_samples"); }
extern "C" void h_c15_hist_finer() { custom_width("h5", 8, 0.25, "h5.nbins", "h5.data_size", "hist_finer.bin", "hist_finer.total_is_in_range_samples"); }

// 2-D histogram (3 x 4 bins, second variable periodic): exactly the containing cell grows
extern "C" void h_c15_hist2d() {
  colvarbias_histogram *h = dynamic_cast<colvarbias_histogram *>(e2e_bias("h2"));
  verif_assert(h->grid->number_of_points() == 12, "h2.ncells");
  cvm::real pre[12];
  for (int i = 0; i < 12; i++) { pre[i] = verif_sym_double(CN[i]); h->grid->data[i] = pre[i]; }
  cvm::real z = verif_sym_double("z"), p = verif_sym_double("p");
  verif_assume(z > -1000.0 && z < 1000.0 && p > -1000.0 && p < 1000.0);
  place(1.5, z, p);
  px->colvars->it = 5; px->colvars->it_restart = 0;
  verif_reach("hist2d");
  int e = px->colvars->calc_colvars(); e |= px->colvars->calc_biases();
  verif_out_i64("hist2d_err", e);
  verif_assert(e == COLVARS_OK, "hist2d.step_ok");
  // the periodic variable is wrapped into [-180, 180) by the variable itself
  cvm::real pw = e2e_cv("p")->value().real_value;
  verif_assert(pw >= -180.0 && pw < 180.0 && verif_is_integer((p - pw) / 360.0), "hist2d.periodic_value_wrapped");
  cvm::real total = 0.0;
  for (int i = 0; i < 3; i++) for (int j = 0; j < 4; j++) {
    bool in_cell = (z >= -0.5 + 0.25 * i) && (z < -0.5 + 0.25 * (i + 1)) && (pw >= -180.0 + 90.0 * j) && (pw < -180.0 + 90.0 * (j + 1));
    verif_assert_eq(h->grid->data[i * 4 + j], pre[i * 4 + j] + (in_cell ? 1.0 : 0.0), "hist2d.cell");
    total += h->grid->data[i * 4 + j] - pre[i * 4 + j];
  }
  verif_assert_eq(total, (z >= -0.5 && z < 0.25) ? 1.0 : 0.0, "hist2d.total");
}

// index arithmetic of the real grid object of h2 (3 x 4, second dimension periodic)
extern "C" void h_c15_index() {
  colvarbias_histogram *h = dynamic_cast<colvarbias_histogram *>(e2e_bias("h2"));
  colvar_grid_scalar *g = h->grid;
  verif_assert(g->periodic[1] && !g->periodic[0], "grid.periodic_flags");
  cvm::real v0 = verif_sym_double("v0"), v1 = verif_sym_double("v1");
  verif_assume(v0 > -1000.0 && v0 < 1000.0 && v1 > -1000.0 && v1 < 1000.0);
  verif_reach("index");
  int i0 = g->value_to_bin_scalar(colvarvalue(v0), 0), i1 = g->value_to_bin_scalar(colvarvalue(v1), 1);
  verif_assert((v0 >= -0.5 + 0.25 * i0) && (v0 < -0.5 + 0.25 * (i0 + 1)), "index.bin_contains_value.0");
  verif_assert((v1 >= -180.0 + 90.0 * i1) && (v1 < -180.0 + 90.0 * (i1 + 1)), "index.bin_contains_value.1");
  std::vector<int> ix(2); ix[0] = i0; ix[1] = i1;
  bool ok = g->index_ok(ix);
  verif_assert(ok == ((v0 >= -0.5) && (v0 < 0.25) && (v1 >= -180.0) && (v1 < 180.0)), "index.ok_iff_in_range");
  // centre of the bin
  verif_assert_eq(g->bin_to_value_scalar(i0, 0).real_value, -0.5 + 0.25 * ((cvm::real) i0 + 0.5), "index.bin_centre");
  // bounded variant: clamps non-periodic, wraps periodic dimensions
  int b0 = g->value_to_bin_scalar_bound(colvarvalue(v0), 0);
  verif_assert(b0 == (i0 < 0 ? 0 : (i0 > 2 ? 2 : i0)), "index.bound_clamps");
  int b1 = g->value_to_bin_scalar_bound(colvarvalue(v1), 1);
  verif_assert(b1 >= 0 && b1 < 4, "index.bound_periodic_in_range");
  verif_assert(!(v1 >= -180.0 && v1 < 180.0) || b1 == i1, "index.bound_is_bin_inside_grid");
}

extern "C" void h_c15_address() {
  colvarbias_histogram *h = dynamic_cast<colvarbias_histogram *>(e2e_bias("h2"));
  colvar_grid_scalar *g = h->grid;
  std::vector<int> a(2), b(2);
  a[0] = (int) verif_sym_int("a0", 0, 2); a[1] = (int) verif_sym_int("a1", 0, 3);
  b[0] = (int) verif_sym_int("b0", 0, 2); b[1] = (int) verif_sym_int("b1", 0, 3);
  verif_reach("address");
  size_t aa = g->address(a), ab = g->address(b);
  verif_assert(aa < 12 && ab < 12, "address.in_range");
  verif_assert((aa == ab) == (a[0] == b[0] && a[1] == b[1]), "address.injective");
  // incr() enumerates every cell exactly once, in address order
  std::vector<int> c = a;
  g->incr(c);
  verif_assert(g->index_ok(c) ? (g->address(c) == aa + 1) : (aa == 11), "address.incr_is_successor");
  // periodic wrap of an index vector
  std::vector<int> w(2); w[0] = a[0]; long k = verif_sym_int("k", -4, 7); w[1] = (int) k;     // callers pass indices at most one period outside
  g->wrap(w);
  verif_assert(w[1] >= 0 && w[1] < 4 && verif_is_integer((cvm::real) (k - w[1]) / 4.0), "address.wrap_periodic");
}

// file round trips of a gradient grid (multiplicity 2) on (z, p): multicolumn, restart, raw
static void fill(colvar_grid_gradient &g, const char *prefix) {
  static const char *names[24] = {"g0","g1","g2","g3","g4","g5","g6","g7","g8","g9","g10","g11","g12","g13","g14","g15","g16","g17","g18","g19","g20","g21","g22","g23"};
  for (size_t i = 0; i < g.data.size() && i < 24; i++) g.data[i] = verif_sym_double(names[i]);
}
extern "C" void h_c15_roundtrip() {
  std::vector<colvar *> cvs; cvs.push_back(e2e_cv("z")); cvs.push_back(e2e_cv("p"));
  colvar_grid_gradient g(cvs), r1(cvs), r2(cvs), r3(cvs);
  verif_assert(g.data.size() == 24 && g.multiplicity() == 2, "roundtrip.size");
  fill(g, "g");
  int form = verif_choice("form", 3);
  verif_reach("roundtrip");
  std::ostringstream os;
  colvar_grid_gradient *r = form == 0 ? &r1 : form == 1 ? &r2 : &r3;
  if (form == 0) { g.write_multicol(os); std::istringstream is(os.str()); r->read_multicol(is); verif_assert(bool(is) || is.eof(), "roundtrip.multicol.read_ok"); }
  else if (form == 1) { g.write_restart(os); std::istringstream is(os.str()); r->read_restart(is); verif_assert(bool(is), "roundtrip.restart.read_ok"); }
  else { g.write_raw(os, 3); std::istringstream is(os.str()); r->read_raw(is); verif_assert(bool(is), "roundtrip.raw.read_ok"); }
  verif_assert(r->data.size() == 24, "roundtrip.data_size");
  for (size_t i = 0; i < 24 && i < r->data.size(); i++) verif_assert_eq(r->data[i], g.data[i], "roundtrip.datum");
  verif_assert(r->sizes()[0] == 3 && r->sizes()[1] == 4, "roundtrip.sizes");
  verif_assert_eq(r->lower_boundaries[0].real_value, -0.5, "roundtrip.lower0"); verif_assert_eq(r->upper_boundaries[1].real_value, 180.0, "roundtrip.upper1");
  verif_assert(r->periodic[1] && !r->periodic[0], "roundtrip.periodic_flags");
}
