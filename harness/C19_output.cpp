// C19: written outputs faithfully describe the internal state at the stated step
#include "e2e.h"
#include <fstream>
#include <sstream>

#define NSTEPS 6
static const char *XS[8] = {"xs0","xs1","xs2","xs3","xs4","xs5","xs6","xs7"};
static const char *RS[8][3] = {{"ra0","rb0","rc0"},{"ra1","rb1","rc1"},{"ra2","rb2","rc2"},{"ra3","rb3","rc3"},{"ra4","rb4","rc4"},{"ra5","rb5","rc5"},{"ra6","rb6","rc6"},{"ra7","rb7","rc7"}};

// a field of a trajectory line: a number, or a parenthesised vector
struct field { int n; cvm::real v[4]; };
static bool parse_fields(std::string const &line, std::vector<field> &out) {
  std::istringstream is(line);
  std::string tok;
  while (true) {
    is >> std::ws;
    int c = is.peek();
    if (c == EOF) break;
    field f; f.n = 0;
    if (c == '(') {
      is.get();
      while (true) {
        cvm::real x; if (!(is >> x)) return false;
        if (f.n < 4) f.v[f.n++] = x;
        is >> std::ws; c = is.get();
        if (c == ')') break;
        if (c != ',') return false;
      }
    } else {
      cvm::real x; if (!(is >> x)) return false;
      f.v[f.n++] = x;
    }
    out.push_back(f);
  }
  return true;
}
static void parse_labels(std::string const &line, std::vector<std::string> &out) {
  std::istringstream is(line.substr(1));
  std::string w; while (is >> w) out.push_back(w);
}

extern "C" void h_c19_setup() {
  px = new colvarproxy_stub();
  for (int i = 0; i < 4; i++) { px->init_atom(i + 1); px->atoms_masses[i] = E2E_MASS[i]; }
  px->b_simulation_running = true;
}

// ---- trajectory file: one line per multiple of the frequency, step number and columns as announced ------------------------------------
struct rec { cvm::real d, vd, fad, E, x0, F, r[3]; };
extern "C" void h_c19_traj() {
  int F = verif_choice("trajFrequency", 3) + 1;
  static const int IT0[3] = {0, 1, 4};
  int it0 = IT0[verif_choice("first_step", 3)];
  px->set_output_prefix("c19t");
  std::string conf = std::string("units real\ncolvarsTrajFrequency ") + cvm::to_str(F) + "\n"
    "colvar {\n name d\n outputVelocity on\n outputAppliedForce on\n distance {\n group1 { atomNumbers 1 }\n group2 { atomNumbers 2 }\n }\n}\n"
    "colvar {\n name r\n distanceVec {\n group1 { atomNumbers 3 }\n group2 { atomNumbers 4 }\n }\n}\n"
    "harmonic {\n name h\n colvars d\n centers 1.0\n forceConstant 2.0\n targetCenters 3.0\n targetNumSteps 4\n outputEnergy on\n outputCenters on\n outputAccumulatedWork on\n}\n";
  int err = e2e_config(conf.c_str());
  px->colvars->setup_output();
  verif_reach("traj");
  rec R[NSTEPS];
  colvar *d = e2e_cv("d"), *r = e2e_cv("r");
  colvarbias_restraint_harmonic *h = dynamic_cast<colvarbias_restraint_harmonic *>(e2e_bias("h"));
  px->colvars->it = px->colvars->it_restart = it0;
  for (int s = 0; s < NSTEPS; s++) {
    cvm::real x = verif_sym_double(XS[s]); verif_assume(x > 0.25 && x < 8.0);
    e2e_pos(0, 0.0, 0.0, 0.0); e2e_pos(1, x, 0.0, 0.0); e2e_pos(2, 0.0, 1.0, 0.0);
    e2e_pos(3, verif_sym_double(RS[s][0]), 1.0 + verif_sym_double(RS[s][1]), verif_sym_double(RS[s][2]));
    px->colvars->it = it0 + s;
    err |= px->colvars->calc();
    R[s].d = d->value().real_value; R[s].vd = d->velocity().real_value; R[s].fad = d->applied_force().real_value;
    R[s].E = h->get_energy(); R[s].x0 = h->colvar_centers[0].real_value; R[s].F = h->colvar_forces[0].real_value;
    for (int k = 0; k < 3; k++) R[s].r[k] = r->value().rvector_value[k];
  }
  verif_assert(err == COLVARS_OK, "traj.no_error");
  px->close_output_streams();

  std::ifstream is("c19t.colvars.traj");
  verif_assert(is.is_open(), "traj.file_exists");
  std::string line; std::vector<std::string> labels; int nlines = 0; long prev_step = -1; bool all_ok = true;
  while (std::getline(is, line)) {
    if (line.size() == 0) continue;
    if (line[0] == '#') { labels.clear(); parse_labels(line, labels); continue; }
    std::vector<field> f;
    verif_assert(parse_fields(line, f), "traj.line_parses");
    verif_assert(f.size() == labels.size() && labels.size() >= 8, "traj.columns_match_labels");
    if (f.size() != labels.size()) { all_ok = false; break; }
    // the step number of the line: a multiple of the frequency within the run, strictly increasing
    verif_assert(verif_is_integer(f[0].v[0]), "traj.step_integer");
    long st = (long) f[0].v[0];
    verif_assert(labels[0] == "step" && st >= it0 && st < it0 + NSTEPS && (st % F) == 0 && st > prev_step, "traj.step_is_multiple");
    if (!(st >= it0 && st < it0 + NSTEPS)) { all_ok = false; break; }
    // exactly one line per multiple: no multiple skipped between the previous line and this one
    for (long q = (prev_step < 0 ? it0 : prev_step + 1); q < st; q++) verif_assert((q % F) != 0, "traj.no_multiple_skipped");
    prev_step = st; nlines++;
    rec const &c = R[st - it0];
    // the accumulated work by its definition: sum over the steps so far of force times centre displacement
    cvm::real W = 0.0;
    for (int t = 1; t <= st - it0; t++) W += R[t].F * (R[t].x0 - R[t-1].x0);
    for (size_t j = 1; j < labels.size(); j++) {
      std::string const &l = labels[j];
      if (l == "d") verif_assert_eq(f[j].v[0], c.d, "traj.value_at_step");
      else if (l == "v_d") verif_assert_eq(f[j].v[0], c.vd, "traj.velocity_at_step");
      else if (l == "fa_d") verif_assert_eq(f[j].v[0], c.fad, "traj.applied_force_at_step");
      else if (l == "r") { verif_assert(f[j].n == 3, "traj.vector_has_3"); for (int k = 0; k < 3; k++) verif_assert_eq(f[j].v[k], c.r[k], "traj.vector_value_at_step"); }
      else if (l == "E_h") verif_assert_eq(f[j].v[0], c.E, "traj.energy_at_step");
      else if (l == "x0_d") verif_assert_eq(f[j].v[0], c.x0, "traj.centre_at_step");
      else if (l == "W_h") verif_assert_eq(f[j].v[0], W, "traj.accumulated_work_definition");
      else verif_assert(false, "traj.unknown_label");
    }
  }
  for (long q = (prev_step < 0 ? it0 : prev_step + 1); q < it0 + NSTEPS; q++) verif_assert((q % F) != 0, "traj.no_multiple_skipped_at_end");
  verif_assert(nlines >= 1 && all_ok, "traj.has_lines");
  verif_out_i64("nlines", nlines);
}

// ---- trajectory columns of an extended-Lagrangian variable: actual and extended value, both velocities, energies, applied force ----------
struct recx { cvm::real x, xr, vf, vr, Ep, Ek, fa; };
extern "C" void h_c19_traj_ext() {
  int F = verif_choice("trajFrequency", 2) + 1;
  px->set_output_prefix("c19x");
  px->set_integration_timestep(2.0);
  std::string conf = std::string("units real\ncolvarsTrajFrequency ") + cvm::to_str(F) + "\n"
    "colvar {\n name d\n width 0.5\n extendedLagrangian on\n extendedFluctuation 0.25\n extendedTimeConstant 200.0\n extendedTemp 300.0\n extendedLangevinDamping 0.0\n"
    " outputVelocity on\n outputEnergy on\n outputAppliedForce on\n distance {\n group1 { atomNumbers 1 }\n group2 { atomNumbers 2 }\n }\n}\n"
    "harmonic {\n name h\n colvars d\n centers 1.0\n forceConstant 2.0\n outputEnergy on\n}\n";
  int err = e2e_config(conf.c_str());
  px->colvars->setup_output();
  verif_reach("traj_ext");
  const int NS = 4;
  recx R[NS];
  colvar *d = e2e_cv("d");
  px->colvars->it = px->colvars->it_restart = 0;
  for (int s = 0; s < NS; s++) {
    cvm::real x = verif_sym_double(XS[s]); verif_assume(x > 0.25 && x < 8.0);
    e2e_pos(0, 0.0, 0.0, 0.0); e2e_pos(1, x, 0.0, 0.0);
    for (int i = 0; i < 2; i++) px->atoms_new_colvar_forces[i] = cvm::rvector(0.0, 0.0, 0.0);
    px->colvars->it = s;
    err |= px->colvars->calc();
    R[s].x = d->x.real_value; R[s].xr = d->x_reported.real_value; R[s].vf = d->v_fdiff.real_value; R[s].vr = d->v_reported.real_value;
    R[s].Ep = d->potential_energy; R[s].Ek = d->kinetic_energy; R[s].fa = d->applied_force().real_value;
    // the actual value is the distance; from the second step on the finite-difference velocity is its increment over the time step
    verif_assert_eq(R[s].x, x, "traj_ext.actual_value_is_the_distance");
    if (s > 0) verif_assert_eq(R[s].vf * 2.0, R[s].x - R[s-1].x, "traj_ext.fdiff_velocity_definition");
  }
  verif_assert(err == COLVARS_OK, "traj_ext.no_error");
  px->close_output_streams();
  std::ifstream is("c19x.colvars.traj");
  verif_assert(is.is_open(), "traj_ext.file_exists");
  std::string line; std::vector<std::string> labels; int nlines = 0;
  while (std::getline(is, line)) {
    if (line.size() == 0) continue;
    if (line[0] == '#') { labels.clear(); parse_labels(line, labels); continue; }
    std::vector<field> f;
    verif_assert(parse_fields(line, f), "traj_ext.line_parses");
    verif_assert(f.size() == labels.size() && labels.size() == 9, "traj_ext.columns_match_labels");
    if (f.size() != labels.size()) break;
    long st = (long) f[0].v[0];
    verif_assert(labels[0] == "step" && st >= 0 && st < NS && (st % F) == 0, "traj_ext.step_is_multiple");
    if (!(st >= 0 && st < NS)) break;
    nlines++;
    recx const &c = R[st];
    int seen = 0;
    for (size_t j = 1; j < labels.size(); j++) {
      std::string const &l = labels[j];
      if (l == "d") { verif_assert_eq(f[j].v[0], c.x, "traj_ext.actual_value_column"); seen |= 1; }
      else if (l == "r_d") { verif_assert_eq(f[j].v[0], c.xr, "traj_ext.extended_value_column"); seen |= 2; }
      else if (l == "v_d") { verif_assert_eq(f[j].v[0], c.vf, "traj_ext.fdiff_velocity_column"); seen |= 4; }
      else if (l == "vr_d") { verif_assert_eq(f[j].v[0], c.vr, "traj_ext.extended_velocity_column"); seen |= 8; }
      else if (l == "Ep_d") { verif_assert_eq(f[j].v[0], c.Ep, "traj_ext.potential_energy_column"); seen |= 16; }
      else if (l == "Ek_d") { verif_assert_eq(f[j].v[0], c.Ek, "traj_ext.kinetic_energy_column"); seen |= 32; }
      else if (l == "fa_d") { verif_assert_eq(f[j].v[0], c.fa, "traj_ext.applied_force_column"); seen |= 64; }
      else if (l == "E_h") seen |= 128;
      else verif_assert(false, "traj_ext.unknown_label");
    }
    verif_assert(seen == 255, "traj_ext.every_column_announced_once");
  }
  verif_assert(nlines == (NS + F - 1) / F, "traj_ext.one_line_per_multiple");
}

// ---- running average and standard deviation ------------------------------------------------------------------------------------------
extern "C" void h_c19_runave() {
  int L = verif_choice("runAveLength", 2) + 2;      // 2, 3
  int S = verif_choice("runAveStride", 2) + 1;      // 1, 2
  px->set_output_prefix("c19r");
  std::string conf = std::string("units real\ncolvarsTrajFrequency 0\n"
    "colvar {\n name d\n runAve on\n runAveLength ") + cvm::to_str(L) + "\n runAveStride " + cvm::to_str(S) + "\n distance {\n group1 { atomNumbers 1 }\n group2 { atomNumbers 2 }\n }\n}\n";
  int err = e2e_config(conf.c_str());
  px->colvars->setup_output();
  verif_reach("runave");
  const int NS = 8;
  cvm::real V[NS];
  colvar *d = e2e_cv("d");
  px->colvars->it = px->colvars->it_restart = 0;
  for (int s = 0; s < NS; s++) {
    cvm::real x = verif_sym_double(XS[s]); verif_assume(x > 0.25 && x < 8.0);
    e2e_pos(0, 0.0, 0.0, 0.0); e2e_pos(1, x, 0.0, 0.0);
    px->colvars->it = s;
    err |= px->colvars->calc();
    V[s] = d->value().real_value;
  }
  verif_assert(err == COLVARS_OK, "runave.no_error");
  px->close_output_streams();
  std::ifstream is("c19r.d.runave.traj");
  verif_assert(is.is_open(), "runave.file_exists");
  std::string line; int nlines = 0;
  while (std::getline(is, line)) {
    if (line.size() == 0 || line[0] == '#') continue;
    std::vector<field> f;
    verif_assert(parse_fields(line, f) && f.size() == 3, "runave.line_parses");
    if (f.size() != 3) break;
    verif_assert(verif_is_integer(f[0].v[0]), "runave.step_integer");
    long st = (long) f[0].v[0];
    verif_assert(st >= (L - 1) * S && st < NS && (st % S) == 0, "runave.step_in_range");
    if (!(st >= (L - 1) * S && st < NS)) break;
    // the window: the L most recent values sampled every S steps, ending at the step of the line
    cvm::real mean = 0.0;
    for (int k = 0; k < L; k++) mean += V[st - k * S];
    mean /= cvm::real(L);
    cvm::real var = 0.0;
    for (int k = 0; k < L; k++) var += (V[st - k * S] - mean) * (V[st - k * S] - mean);
    var /= cvm::real(L - 1);
    verif_assert_eq(f[1].v[0], mean, "runave.mean_definition");
    verif_assert_eq(f[2].v[0] * f[2].v[0], var, "runave.variance_definition");
    verif_assert(f[2].v[0] >= 0.0, "runave.stddev_nonnegative");
    nlines++;
  }
  verif_assert(nlines >= 1, "runave.has_lines");
  verif_out_i64("nlines", nlines);
}

// ---- time-correlation functions --------------------------------------------------------------------------------------------------------
// type 0: coordinate (scalar), 1: velocity (scalar), 2: coordinate_p2 (3-vector)
static void acf_case(int type, int S, int normalize, int OFF = 0, int cross = 0) {
  const int LEN = 2;
  px->set_output_prefix("c19a");
  static const char *TY[3] = {"coordinate", "velocity", "coordinate_p2"};
  std::string conf = std::string("units real\ncolvarsTrajFrequency 0\ncolvar {\n name d\n corrFunc on\n corrFuncType ") + TY[type] + "\n corrFuncLength " + cvm::to_str(LEN) +
    "\n corrFuncStride " + cvm::to_str(S) + "\n corrFuncOffset " + cvm::to_str(OFF) + (cross ? "\n corrFuncWithColvar b" : "") + "\n corrFuncNormalize " + (normalize ? "on" : "off") + "\n " + (type < 2 ? "distance" : "distanceVec") +
    " {\n group1 { atomNumbers 1 }\n group2 { atomNumbers 2 }\n }\n}\n";
  if (cross) conf.insert(conf.find("colvar {"), "colvar {\n name b\n distance {\n group1 { atomNumbers 3 }\n group2 { atomNumbers 4 }\n }\n}\n");
  int err = e2e_config(conf.c_str());
  px->colvars->setup_output();
  verif_reach("acf");
  cvm::real B[8];
  const int NS = 7;
  cvm::real V[NS][3];
  colvar *d = e2e_cv("d");
  px->colvars->it = px->colvars->it_restart = 0;
  for (int s = 0; s < NS; s++) {
    e2e_pos(0, 0.0, 0.0, 0.0);
    if (type < 2) { cvm::real x = verif_sym_double(XS[s]); verif_assume(x > 0.25 && x < 8.0); e2e_pos(1, x, 0.0, 0.0); }
    else {
      cvm::real a = verif_sym_double(RS[s][0]), b = verif_sym_double(RS[s][1]);
      verif_assume(a > 0.25 && a < 4.0 && b > -4.0 && b < 4.0);
      e2e_pos(1, a, b, 0.0);
    }
    if (cross) { cvm::real y = verif_sym_double(RS[s][2]); verif_assume(y > 0.25 && y < 8.0); e2e_pos(2, 0.0, 0.0, 0.0); e2e_pos(3, 0.0, y, 0.0); }
    px->colvars->it = s;
    err |= px->colvars->calc();
    if (cross) B[s] = e2e_cv("b")->value().real_value;
    if (type == 0) { V[s][0] = d->value().real_value; V[s][1] = V[s][2] = 0.0; }
    else if (type == 1) { V[s][0] = d->velocity().real_value; V[s][1] = V[s][2] = 0.0; }
    else for (int k = 0; k < 3; k++) V[s][k] = d->value().rvector_value[k];
  }
  verif_assert(err == COLVARS_OK, "acf.no_error");
  err = d->write_output_files();
  px->close_output_streams();
  verif_assert(err == COLVARS_OK, "acf.write_no_error");
  std::ifstream is("c19a.d.corrfunc.dat");
  verif_assert(is.is_open(), "acf.file_exists");
  std::string line; int nrows = 0; long N = -1;
  cvm::real C0 = 0.0;
  while (std::getline(is, line)) {
    if (line.size() == 0) continue;
    if (line[0] == '#') {
      size_t p = line.find("Number of samples = ");
      if (p != std::string::npos) { N = atol(line.c_str() + p + 20); if (normalize) N += 1; }
      continue;
    }
    std::vector<field> f;
    verif_assert(parse_fields(line, f) && f.size() == 2, "acf.line_parses");
    if (f.size() != 2) break;
    verif_assert(N >= 1 && N <= NS, "acf.sample_count_announced");
    if (!(N >= 1 && N <= NS)) break;
    verif_assert(verif_is_integer(f[0].v[0]), "acf.lag_integer");
    long lag = (long) f[0].v[0];
    verif_assert(lag == (long) (nrows + OFF) * S, "acf.lag_label");
    if (lag != (long) (nrows + OFF) * S) break;
    // definition: average over the N most recent frames t of  x(t) . x(t - lag)   (P2 of the cosine for coordinate_p2)
    cvm::real sum = 0.0; bool ok = true;
    for (long t = NS - N; t < NS; t++) {
      if (t - lag < 0) { ok = false; break; }
      cvm::real dot = 0.0, n1 = 0.0, n2 = 0.0;
      for (int k = 0; k < 3; k++) { dot += V[t][k] * V[t - lag][k]; n1 += V[t][k] * V[t][k]; n2 += V[t - lag][k] * V[t - lag][k]; }
      if (type == 2) sum += 1.5 * dot * dot / (n1 * n2) - 0.5;
      else sum += dot;
    }
    verif_assert(ok, "acf.frames_have_history");
    if (!ok) break;
    cvm::real c = sum / cvm::real(N);
    if (cross) {
      // correlation between the two variables: <d(t) b(t - lag)> or <b(t) d(t - lag)> (the documentation does not say which one is lagged)
      cvm::real s1 = 0.0, s2 = 0.0;
      for (long t = NS - N; t < NS; t++) { s1 += V[t][0] * B[t - lag]; s2 += B[t] * V[t - lag][0]; }
      s1 /= cvm::real(N); s2 /= cvm::real(N);
      if (lag == 0) verif_assert_eq(f[1].v[0], s1, "acf.cross_zero_lag");
      else verif_assert((f[1].v[0] == s1) | (f[1].v[0] == s2), "acf.cross_definition");
      nrows++; continue;
    }
    if (OFF > 0 && nrows == 0) { verif_assert_eq(f[1].v[0], c, "acf.offset_first_row"); nrows++; continue; }
    if (nrows == 0) C0 = c;
    if (normalize) verif_assert_eq(f[1].v[0] * C0, c, "acf.normalized_definition");
    else verif_assert_eq(f[1].v[0], c, "acf.definition");
    nrows++;
  }
  verif_assert(nrows == LEN + 1, "acf.has_rows");
  verif_out_i64("nrows", nrows); verif_out_i64("N", N);
}
extern "C" void h_c19_acf_coor() { acf_case(0, verif_choice("corrFuncStride", 2) + 1, verif_choice("normalize", 2)); }
extern "C" void h_c19_acf_vel() { acf_case(1, verif_choice("corrFuncStride", 2) + 1, 0); }
extern "C" void h_c19_acf_p2() { acf_case(2, 1, 0); }
extern "C" void h_c19_acf_offset() { acf_case(0, 1, 0, 1, 0); }
extern "C" void h_c19_acf_cross() { acf_case(0, 1, 0, 0, 1); }
