// Common helpers for harnesses that build their state through the public API (configuration text)
#pragma once
#include "colvarmodule.h"
#include "colvar.h"
#include "colvarcomp.h"
#include "colvaratoms.h"
#include "colvarbias.h"
#include "colvarbias_abf.h"
#include "colvarbias_abmd.h"
#include "colvarbias_histogram.h"
#include "colvarbias_meta.h"
#include "colvarbias_restraint.h"
#include "colvarproxy.h"
#include "colvarscript.h"
#include "colvarproxy_stub.h"
#include "verif_api.h"

static colvarproxy_stub *px = nullptr;

static inline int e2e_config(const char *conf) {
  if (!px) px = new colvarproxy_stub();
  int err = px->colvars->read_config_string(std::string(conf));
  verif_out_i64("config_err", err);
  return err;
}
static inline colvar *e2e_cv(const char *name) { return cvm::colvar_by_name(name); }
static inline colvarbias *e2e_bias(const char *name) { return cvm::bias_by_name(name); }
static inline void e2e_pos(int i, cvm::real x, cvm::real y, cvm::real z) { (*px->modify_atom_positions())[i] = cvm::rvector(x, y, z); }
static inline int e2e_natoms() { return (int) px->get_atom_ids()->size(); }

// ---- force = -dE/dx check shared by the C01 / C08 harnesses -----------------------------------------------------------
static const char *E2E_XN[8][3] = {{"x0","y0","z0"},{"x1","y1","z1"},{"x2","y2","z2"},{"x3","y3","z3"},{"x4","y4","z4"},{"x5","y5","z5"},{"x6","y6","z6"},{"x7","y7","z7"}};
static const char *E2E_FL[8][3] = {{"force.atom0.x","force.atom0.y","force.atom0.z"},{"force.atom1.x","force.atom1.y","force.atom1.z"},{"force.atom2.x","force.atom2.y","force.atom2.z"},
  {"force.atom3.x","force.atom3.y","force.atom3.z"},{"force.atom4.x","force.atom4.y","force.atom4.z"},{"force.atom5.x","force.atom5.y","force.atom5.z"},
  {"force.atom6.x","force.atom6.y","force.atom6.z"},{"force.atom7.x","force.atom7.y","force.atom7.z"}};
static const double E2E_MASS[8] = {1.0, 2.0, 3.5, 12.0, 16.0, 1.25, 14.0, 32.0};
static const double E2E_CHARGE[8] = {0.5, -1.0, 0.25, 1.0, -0.75, 0.125, -0.25, 2.0};

// proxy with natoms atoms registered up front (distinct masses and charges), then the configuration
static inline int e2e_make(int natoms, const char *conf) {
  px = new colvarproxy_stub();
  for (int i = 0; i < natoms; i++) { px->init_atom(i + 1); px->atoms_masses[i] = E2E_MASS[i]; px->atoms_charges[i] = E2E_CHARGE[i]; }
  return e2e_config(conf);
}
// all coordinates free and differentiated
static inline void e2e_free_positions(int natoms) {
  for (int i = 0; i < natoms; i++) e2e_pos(i, verif_sym_double_ad(E2E_XN[i][0]), verif_sym_double_ad(E2E_XN[i][1]), verif_sym_double_ad(E2E_XN[i][2]));
}
// one atom pinned to the point (x,y,z) of a slice, still differentiated
static inline void e2e_pin(int i, cvm::real x, cvm::real y, cvm::real z) {
  e2e_pos(i, verif_ad_seed(x, E2E_XN[i][0]), verif_ad_seed(y, E2E_XN[i][1]), verif_ad_seed(z, E2E_XN[i][2]));
}
static inline int e2e_step() {
  int e = px->colvars->calc_colvars(); e |= px->colvars->calc_biases(); e |= px->colvars->update_colvar_forces();
  return e;
}
// every atom known to the proxy: applied force == -d(reported energy)/d(position)
static inline void e2e_check_forces(int natoms) {
  cvm::real E = px->colvars->total_bias_energy;
  verif_out_double("energy", E);
  for (int i = 0; i < natoms; i++) {
    cvm::rvector f = px->atoms_new_colvar_forces[i];
    verif_assert_eq(f.x, -verif_deriv(E, E2E_XN[i][0]), E2E_FL[i][0]);
    verif_assert_eq(f.y, -verif_deriv(E, E2E_XN[i][1]), E2E_FL[i][1]);
    verif_assert_eq(f.z, -verif_deriv(E, E2E_XN[i][2]), E2E_FL[i][2]);
    if (i < 3) { verif_out_double(E2E_FL[i][0], f.x); }
  }
}
