// Common helpers for harnesses that build their state through the public API (configuration text)
#pragma once
#include "colvarmodule.h"
#include "colvar.h"
#include "colvarcomp.h"
#include "colvaratoms.h"
#include "colvarbias.h"
#include "colvarbias_abf.h"
#include "colvarbias_abmd.h"
#include "colvarbias_histogram.h"
#include "colvarbias_meta.h"
#include "colvarbias_restraint.h"
#include "colvarproxy.h"
#include "colvarscript.h"
#include "colvarproxy_stub.h"
#include "verif_api.h"

static colvarproxy_stub *px = nullptr;

static inline int e2e_config(const char *conf) {
  if (!px) px = new colvarproxy_stub();
  int err = px->colvars->read_config_string(std::string(conf));
  verif_out_i64("config_err", err);
  return err;
}
static inline colvar *e2e_cv(const char *name) { return cvm::colvar_by_name(name); }
static inline colvarbias *e2e_bias(const char *name) { return cvm::bias_by_name(name); }
static inline void e2e_pos(int i, cvm::real x, cvm::real y, cvm::real z) { (*px->modify_atom_positions())[i] = cvm::rvector(x, y, z); }
static inline int e2e_natoms() { return (int) px->get_atom_ids()->size(); }
