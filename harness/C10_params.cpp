// C10: invalid parameter values are reported as errors and are never fatal
#include "e2e.h"
extern "C" void h_c10_setup() {
  px = new colvarproxy_stub();
  for (int i = 0; i < 4; i++) px->init_atom(i + 1);
  e2e_config("units real\ncolvarsTrajFrequency 0\n"
    "colvar {\n name ok\n width 0.5\n lowerBoundary 1.0\n upperBoundary 3.0\n distance {\n group1 { atomNumbers 1 }\n group2 { atomNumbers 2 }\n }\n}\n"
    "harmonic {\n name hok\n colvars ok\n centers 2.0\n forceConstant 2.0\n}\n");
}
static void place(cvm::real x) { e2e_pos(0, 0.0, 0.0, 0.0); e2e_pos(1, x, 0.0, 0.0); e2e_pos(2, 0.0, 1.0, 0.0); e2e_pos(3, 0.0, 0.0, 1.5); }
static std::string tokI(const char *n, long lo, long hi) { long k = verif_param("range_scale", 1); return std::string(verif_token_int(n, lo * k, hi * k)); }
static std::string tokD(const char *n) { return std::string(verif_token_double(n)); }

// after configuration (accepted or rejected): a few steps and the output requests must run; previously defined objects behave as before
static void run_steps(int err) {
  size_t ncv = px->colvars->variables()->size(), nb = px->colvars->biases.size();
  if (err != COLVARS_OK) {
    verif_assert(cvm::colvar_by_name("ok") != nullptr && cvm::bias_by_name("hok") != nullptr, "rollback.previous_objects_kept");
    verif_assert(cvm::colvar_by_name("v") == nullptr || true, "rollback.noop");
    px->colvars->clear_error();
  }
  px->b_simulation_running = true;
  for (int s = 0; s < 3; s++) {
    place(1.5 + 0.25 * s);
    px->colvars->it = 10 + s; px->colvars->it_restart = 10;
    int e = px->colvars->calc_colvars(); e |= px->colvars->calc_biases(); e |= px->colvars->update_colvar_forces(); e |= px->colvars->analyze(); e |= px->colvars->end_of_step();
    (void) e;
    px->colvars->clear_error();
  }
  // the object defined before the (possibly rejected) configuration still produces its energy
  cvm::real x = 1.5 + 0.25 * 2;
  verif_assert_eq(cvm::bias_by_name("hok")->get_energy(), 0.5 * 2.0 * (x - 2.0) * (x - 2.0) / 0.25, "previous_bias.unchanged");
  verif_out_i64("ncv", (long) ncv); verif_out_i64("nb", (long) nb);
}

extern "C" void h_c10_meta() {
  std::string conf = "metadynamics {\n name m\n colvars ok\n hillWeight 0.1\n hillWidth 2.0\n newHillFrequency " + tokI("newHillFrequency", -3, 40) +
                     "\n gridsUpdateFrequency " + tokI("gridsUpdateFrequency", -3, 40) + "\n}\n";
  verif_reach("meta");
  int err = px->colvars->read_config_string(conf);
  run_steps(err);
}
extern "C" void h_c10_runave() {
  std::string conf = "colvar {\n name v\n width 0.5\n runAve on\n runAveLength " + tokI("runAveLength", -3, 12) + "\n runAveStride " + tokI("runAveStride", -3, 12) +
                     "\n distance {\n group1 { atomNumbers 2 }\n group2 { atomNumbers 3 }\n }\n}\n";
  verif_reach("runave");
  int err = px->colvars->read_config_string(conf);
  run_steps(err);
}
extern "C" void h_c10_corrfunc() {
  std::string conf = "colvar {\n name v\n width 0.5\n corrFunc on\n corrFuncLength " + tokI("corrFuncLength", -3, 6) + "\n corrFuncStride " + tokI("corrFuncStride", -3, 6) +
                     "\n corrFuncOffset " + tokI("corrFuncOffset", -3, 6) + "\n distance {\n group1 { atomNumbers 2 }\n group2 { atomNumbers 3 }\n }\n}\n";
  verif_reach("corrfunc");
  int err = px->colvars->read_config_string(conf);
  run_steps(err);
}
extern "C" void h_c10_abf() {
  std::string conf = "abf {\n name a\n colvars ok\n fullSamples " + tokI("fullSamples", -3, 20) + "\n minSamples " + tokI("minSamples", -3, 20) +
                     "\n historyFreq " + tokI("historyFreq", -3, 20) + "\n outputFreq " + tokI("outputFreq", -3, 20) + "\n}\n";
  verif_reach("abf");
  int err = px->colvars->read_config_string(conf);
  run_steps(err);
}
extern "C" void h_c10_grid_width() {
  // a gridded bias on a variable whose width / boundaries are arbitrary (|.| < 1e3, positive widths above 1e-3, at most 4 bins)
  std::string conf = "colvar {\n name v\n width " + tokD("width") + "\n lowerBoundary " + tokD("lower") + "\n upperBoundary " + tokD("upper") +
                     "\n distance {\n group1 { atomNumbers 2 }\n group2 { atomNumbers 3 }\n }\n}\nhistogram {\n name hg\n colvars v\n}\n";
  cvm::real w = verif_sym_double("width"), lo = verif_sym_double("lower"), up = verif_sym_double("upper");      // the same symbols as the tokens
  verif_assume(w > -1000.0 && w < 1000.0 && (w <= 0.0 || w > 0.001) && lo > -1000.0 && lo < 1000.0 && up > -1000.0 && up < 1000.0);
  verif_assume((w <= 0.0) | (up - lo <= 4.0 * w));        // at most 4 bins (stated bound: the grid size is not the subject here)
  verif_reach("grid_width");
  int err = px->colvars->read_config_string(conf);
  run_steps(err);
}
extern "C" void h_c10_abf_width() {
  // ABF on a variable with fixed boundaries [1, 3] and an arbitrary width: 0 bins (width > twice the range) must be rejected, not allocated
  std::string conf = "colvar {\n name v\n width " + tokD("width") + "\n lowerBoundary 1.0\n upperBoundary 3.0\n distance {\n group1 { atomNumbers 2 }\n group2 { atomNumbers 3 }\n }\n}\nabf {\n name a\n colvars v\n fullSamples 2\n}\n";
  cvm::real w = verif_sym_double("width");
  verif_assume(w > -1000.0 && w < 1000.0 && (w <= 0.0 || w > 0.5));     // at most 4 bins
  verif_reach("abf_width");
  int err = px->colvars->read_config_string(conf);
  run_steps(err);
}
extern "C" void h_c10_restraint() {
  std::string conf = "harmonic {\n name hm\n colvars ok\n centers 2.0\n targetCenters 3.0\n forceConstant " + tokD("forceConstant") + "\n targetNumSteps " + tokI("targetNumSteps", -3, 20) +
                     "\n targetNumStages " + tokI("targetNumStages", -3, 5) + "\n}\n";
  verif_reach("restraint");
  int err = px->colvars->read_config_string(conf);
  run_steps(err);
}
extern "C" void h_c10_module() {
  std::string conf = "colvarsTrajFrequency " + tokI("colvarsTrajFrequency", -3, 20) + "\ncolvarsRestartFrequency " + tokI("colvarsRestartFrequency", -3, 20) + "\n";
  verif_reach("module");
  int err = px->colvars->read_config_string(conf);
  run_steps(err);
}
// structural values: concrete lists of invalid inputs (the monitors are the property)
extern "C" void h_c10_structural() {
  static const char *bad[8] = {
    "colvar {\n name v\n distance {\n group1 { atomNumbersRange 10-5 }\n group2 { atomNumbers 3 }\n }\n}\n",
    "colvar {\n name v\n distance {\n group1 { atomNumbers 0 }\n group2 { atomNumbers 3 }\n }\n}\n",
    "colvar {\n name v\n distance {\n group1 { atomNumbers }\n group2 { atomNumbers 3 }\n }\n}\n",
    "colvar {\n name v\n width 0.5\n lowerBoundary 3.0\n upperBoundary 1.0\n distance {\n group1 { atomNumbers 2 }\n group2 { atomNumbers 3 }\n }\n}\n",
    "colvar {\n name v\n distance {\n group1 { atomNumbers 2 }\n group2 { atomNumbers 2 }\n }\n}\nharmonic {\n colvars v nonexistent\n centers 1.0 2.0\n}\n",
    "harmonic {\n name h2\n colvars ok\n centers 1.0 2.0\n forceConstant 1.0\n}\n",
    "harmonicWalls {\n name w\n colvars ok\n lowerWalls 3.0\n upperWalls 1.0\n}\n",
    "colvar {\n name v\n distance {\n group1 { atomNumbers -4 }\n group2 { atomNumbers 3 }\n }\n}\n" };
  int k = verif_choice("case", 8);
  verif_reach("structural");
  int err = px->colvars->read_config_string(bad[k]);
  verif_out_i64("err", err);
  run_steps(err);
}
// roll-back: a rejected configuration followed by a valid one
extern "C" void h_c10_rollback() {
  verif_reach("rollback");
  int e1 = px->colvars->read_config_string("colvarsTrajFrequency 5\ncolvar {\n name bad\n width 0.5\n lowerBoundary 3.0\n upperBoundary 1.0\n distance {\n group1 { atomNumbers 2 }\n group2 { atomNumbers 3 }\n }\n}\n");
  verif_assert(e1 != COLVARS_OK, "rollback.invalid_config_rejected");
  verif_assert(cvm::colvar_by_name("bad") == nullptr, "rollback.failed_object_removed");
  px->colvars->clear_error();
  int e2 = px->colvars->read_config_string("colvar {\n name v2\n distance {\n group1 { atomNumbers 2 }\n group2 { atomNumbers 3 }\n }\n}\n");
  verif_assert(e2 == COLVARS_OK && cvm::colvar_by_name("v2") != nullptr, "rollback.module_usable_afterwards");
  run_steps(COLVARS_OK);
}
