// C06: restraints implement their documented potentials and time schedules
#include "e2e.h"

extern "C" void h_c06_setup() {
  e2e_make(4,
    "units real\ncolvarsTrajFrequency 0\n"
    "colvar {\n name v\n width 0.5\n distance {\n group1 { atomNumbers 1 }\n group2 { atomNumbers 2 }\n }\n}\n"
    "colvar {\n name p\n width 5.0\n distanceZ {\n main { atomNumbers 3 }\n ref { atomNumbers 4 }\n period 360.0\n }\n}\n"
    "harmonic {\n name hp\n colvars p\n centers 150.0\n forceConstant 2.0\n}\n"
    "harmonicWalls {\n name wv\n colvars v\n lowerWalls 2.0\n upperWalls 4.0\n lowerWallConstant 2.0\n upperWallConstant 5.0\n forceConstant 1.5\n}\n"
    "harmonicWalls {\n name wu\n colvars v\n upperWalls 3.0\n forceConstant 4.0\n}\n"
    "harmonicWalls {\n name wp\n colvars p\n lowerWalls 100.0\n upperWalls 170.0\n forceConstant 2.0\n}\n"
    "linear {\n name l\n colvars v\n centers 1.0\n forceConstant 2.5\n}\n"
    "harmonic {\n name hc\n colvars v\n centers 2.0\n targetCenters 5.0\n targetNumSteps 10\n forceConstant 3.0\n outputAccumulatedWork on\n}\n"
    "harmonic {\n name hs\n colvars v\n centers 2.0\n targetCenters 6.0\n targetNumSteps 5\n targetNumStages 4\n forceConstant 3.0\n}\n"
    "harmonic {\n name hk\n colvars v\n centers 2.0\n forceConstant 1.0\n targetForceConstant 9.0\n targetNumSteps 10\n lambdaExponent 2.0\n outputAccumulatedWork on\n}\n"
    "harmonic {\n name hks\n colvars v\n centers 2.0\n forceConstant 1.0\n targetForceConstant 9.0\n targetNumSteps 8\n targetNumStages 3\n targetEquilSteps 3\n lambdaExponent 2.0\n}\n"
    "harmonic {\n name hkd\n colvars v\n centers 2.0\n forceConstant 6.0\n decoupling on\n targetNumSteps 8\n targetNumStages 3\n targetEquilSteps 3\n lambdaExponent 2.0\n}\n");
}

static void place(cvm::real x, cvm::real z) {
  e2e_pos(0, 0.0, 0.0, 0.0); e2e_pos(1, x, 0.0, 0.0);
  e2e_pos(2, 0.0, 0.0, z); e2e_pos(3, 0.0, 0.0, 0.0);
}
static cvm::real shortest(cvm::real diff, cvm::real period) { return diff - period * cvm::floor(diff / period + 0.5); }

// ---- closed-form potentials -----------------------------------------------------------------------------------------
extern "C" void h_c06_potentials() {
  cvm::real x = verif_sym_double("x"), z = verif_sym_double("z");
  verif_assume(x > 0.0 && x < 1000.0 && z > -1000.0 && z < 1000.0);
  place(x, z);
  px->b_simulation_running = true;
  px->colvars->it = 3; px->colvars->it_restart = 0;
  verif_reach("potentials");
  verif_assert(px->colvars->calc_colvars() == COLVARS_OK, "calc_colvars.ok");
  cvm::real pv = e2e_cv("p")->value().real_value;   // wrapped into [-180, 180)
  verif_assert_eq(e2e_cv("v")->value().real_value, x, "value.v");
  // harmonic on a periodic variable: shortest image
  colvarbias *hp = e2e_bias("hp"); hp->update();
  cvm::real dp = shortest(pv - 150.0, 360.0);
  verif_assert_eq(hp->get_energy(), 0.5 * 2.0 * dp * dp / 25.0, "harmonic.periodic.energy");
  verif_assert_eq(hp->colvar_forces[0].real_value, -2.0 * dp / 25.0, "harmonic.periodic.force");
  // two-sided walls with relative constants
  colvarbias *wv = e2e_bias("wv"); wv->update();
  // lowerWallConstant / upperWallConstant are the force constants of the two walls (forceConstant is then their geometric mean)
  cvm::real ewv = x < 2.0 ? 0.5 * 2.0 * (x - 2.0) * (x - 2.0) / 0.25 : (x > 4.0 ? 0.5 * 5.0 * (x - 4.0) * (x - 4.0) / 0.25 : 0.0);
  cvm::real fwv = x < 2.0 ? -2.0 * (x - 2.0) / 0.25 : (x > 4.0 ? -5.0 * (x - 4.0) / 0.25 : 0.0);
  verif_assert_eq(wv->get_energy(), ewv, "walls.both.energy");
  verif_assert_eq(wv->colvar_forces[0].real_value, fwv, "walls.both.force");
  // one-sided wall
  colvarbias *wu = e2e_bias("wu"); wu->update();
  verif_assert_eq(wu->get_energy(), x > 3.0 ? 0.5 * 4.0 * (x - 3.0) * (x - 3.0) / 0.25 : 0.0, "walls.upper.energy");
  // periodic variable: the closest wall (shortest image) applies, only on its outer side
  colvarbias *wp = e2e_bias("wp"); wp->update();
  cvm::real dl = shortest(pv - 100.0, 360.0), du = shortest(pv - 170.0, 360.0);
  cvm::real dist = (dl * dl < du * du) ? (dl < 0.0 ? dl : 0.0) : (du > 0.0 ? du : 0.0);
  verif_assert_eq(wp->get_energy(), 0.5 * 2.0 * dist * dist / 25.0, "walls.periodic.energy");
  verif_assert_eq(wp->colvar_forces[0].real_value, -2.0 * dist / 25.0, "walls.periodic.force");
  // linear
  colvarbias *l = e2e_bias("l"); l->update();
  verif_assert_eq(l->get_energy(), 2.5 * (x - 1.0) / 0.5, "linear.energy");
  verif_assert_eq(l->colvar_forces[0].real_value, -2.5 / 0.5, "linear.force");
  verif_out_double("e_walls", wv->get_energy());
}

// ---- schedules ------------------------------------------------------------------------------------------------------
static void sym_steps(long &t, long &r, long &f) {
  t = verif_sym_int("t", 0, 60); r = verif_sym_int("r", 0, 60); f = verif_sym_int("f", 0, 60);
  verif_assume(r <= t && f <= t);
  px->colvars->it = t; px->colvars->it_restart = r;
  px->b_simulation_running = true;
}

extern "C" void h_c06_centers_continuous() {
  colvarbias_restraint_harmonic *b = dynamic_cast<colvarbias_restraint_harmonic *>(e2e_bias("hc"));
  cvm::real x = verif_sym_double("x"); verif_assume(x > 0.0 && x < 1000.0);
  place(x, 0.0);
  long t, r, f; sym_steps(t, r, f);
  b->first_step = f;
  cvm::real c_prev = verif_sym_double("c_prev"), w_prev = verif_sym_double("w_prev");
  b->colvar_centers[0] = colvarvalue(c_prev); b->acc_work = w_prev;
  verif_reach("centers_continuous");
  px->colvars->calc_colvars();
  b->update();
  bool active = (t - f) <= 10;
  cvm::real c_expect = active ? 2.0 + 3.0 * (cvm::real) (t - f) / 10.0 : c_prev;
  verif_assert_eq(b->colvar_centers[0].real_value, c_expect, "centers.continuous.center_is_function_of_step");
  verif_assert_eq(b->get_energy(), 0.5 * 3.0 * (x - c_expect) * (x - c_expect) / 0.25, "centers.continuous.energy_uses_new_center");
  cvm::real force = -3.0 * (x - c_expect) / 0.25;
  cvm::real w_expect = (active && t > r) ? w_prev + force * (c_expect - c_prev) : w_prev;
  verif_assert_eq(b->acc_work, w_expect, "centers.continuous.accumulated_work");
}

extern "C" void h_c06_centers_staged() {
  colvarbias_restraint_harmonic *b = dynamic_cast<colvarbias_restraint_harmonic *>(e2e_bias("hs"));
  place(2.5, 0.0);
  long t, r, f; sym_steps(t, r, f);
  b->first_step = f;
  long s = verif_sym_int("stage", 0, 6);
  cvm::real c_prev = verif_sym_double("c_prev");
  b->stage = (int) s; b->colvar_centers[0] = colvarvalue(c_prev);
  verif_reach("centers_staged");
  px->colvars->calc_colvars();
  b->update();
  bool advance = (s <= 4) && (t > r) && (((t - f) % 5) == 1);
  verif_assert(b->stage == (advance ? s + 1 : s), "centers.staged.stage");
  verif_assert_eq(b->colvar_centers[0].real_value, advance ? 2.0 + 4.0 * (cvm::real) s / 4.0 : c_prev, "centers.staged.center");
}

extern "C" void h_c06_k_continuous() {
  colvarbias_restraint_harmonic *b = dynamic_cast<colvarbias_restraint_harmonic *>(e2e_bias("hk"));
  cvm::real x = verif_sym_double("x"); verif_assume(x > 0.0 && x < 1000.0);
  place(x, 0.0);
  long t, r, f; sym_steps(t, r, f);
  b->first_step = f;
  cvm::real k_prev = verif_sym_double("k_prev"), w_prev = verif_sym_double("w_prev");
  b->force_k = k_prev; b->acc_work = w_prev; b->force_k_incr = verif_sym_double("incr_prev");   // whatever the previous step left behind
  verif_reach("k_continuous");
  px->colvars->calc_colvars();
  b->update();
  bool active = (t - f) <= 10;
  cvm::real lam = (cvm::real) (t - f) / 10.0;
  cvm::real k_expect = active ? 1.0 + 8.0 * lam * lam : k_prev;
  verif_assert_eq(b->force_k, k_expect, "k.continuous.k_is_function_of_step");
  verif_assert_eq(b->get_energy(), 0.5 * k_expect * (x - 2.0) * (x - 2.0) / 0.25, "k.continuous.energy_uses_new_k");
  cvm::real dUdk = 0.5 * (x - 2.0) * (x - 2.0) / 0.25;
  cvm::real w_expect = (t > r) ? w_prev + dUdk * (active ? k_expect - k_prev : 0.0) : w_prev;
  verif_assert_eq(b->acc_work, w_expect, "k.continuous.accumulated_work");
}

static void k_staged(const char *bias, bool dec, cvm::real k0, cvm::real k1) {
  colvarbias_restraint_harmonic *b = dynamic_cast<colvarbias_restraint_harmonic *>(e2e_bias(bias));
  cvm::real x = verif_sym_double("x"); verif_assume(x > 0.0 && x < 1000.0);
  place(x, 0.0);
  long t, r, f; sym_steps(t, r, f);
  verif_assume(t > f);                       // the set-up of the first stage at t == first_step is a separate case below
  b->first_step = f;
  long s = verif_sym_int("stage", 0, 3);
  cvm::real fe_prev = verif_sym_double("fe_prev"), k_prev = verif_sym_double("k_prev");
  b->stage = (int) s; b->restraint_FE = fe_prev; b->force_k = k_prev;
  verif_reach(dec ? "k_staged_decoupling" : "k_staged");
  px->colvars->calc_colvars();
  b->update();
  long ph = (t - f) % 8;
  cvm::real lam = dec ? 1.0 - (cvm::real) s / 3.0 : (cvm::real) s / 3.0;
  cvm::real dUdk = 0.5 * (x - 2.0) * (x - 2.0) / 0.25;
  // dU/dlambda = e * lambda^(e-1) * (k1 - k0) * dU/dk, accumulated only after the equilibration steps of each stage
  cvm::real fe_acc = (ph >= 3) ? fe_prev + 2.0 * lam * (k1 - k0) * dUdk : fe_prev;
  bool stage_end = (ph == 0);
  if (stage_end) {
    int found = 0;
    cvm::real logged = verif_logged_value("dA/dLambda=", &found);
    if (verif_is_symbolic()) { verif_assert(found, "k.staged.dAdLambda_logged"); verif_assert_eq(logged, fe_acc / (cvm::real) (8 - 3), "k.staged.dAdLambda_is_mean_over_post_equilibration_steps"); }
  }
  bool next = stage_end && s < 3;
  verif_assert(b->stage == (next ? s + 1 : s), "k.staged.stage");
  verif_assert_eq(b->restraint_FE, next ? 0.0 : fe_acc, "k.staged.accumulator");
  cvm::real lam2 = dec ? 1.0 - (cvm::real) (s + 1) / 3.0 : (cvm::real) (s + 1) / 3.0;
  verif_assert_eq(b->force_k, next ? k0 + (k1 - k0) * lam2 * lam2 : k_prev, "k.staged.k");
}
extern "C" void h_c06_k_staged() { k_staged("hks", false, 1.0, 9.0); }
// decoupling: lambda runs from 1 to 0 in stages, k = forceConstant * lambda^e, TI derivative and logged Lambda use the same lambda
extern "C" void h_c06_k_staged_decoupling() { k_staged("hkd", true, 0.0, 6.0); }
