// C01 (bias part): for every bias whose energy is a differentiable function of the current variables the applied atomic
// forces are minus the gradient of the reported energy (variables: distance / distancePairs, built from configuration text)
#include "e2e.h"
#define PRE "units real\ncolvarsTrajFrequency 0\n"
#define DCV "colvar {\n name v\n width 0.5\n distance {\n group1 { atomNumbers 1 2 }\n group2 { atomNumbers 3 }\n }\n}\n"
#define DCV2 "colvar {\n name w\n width 0.25\n distanceZ {\n main { atomNumbers 2 }\n ref { atomNumbers 4 }\n }\n}\n"

#define C01B_CASE(NAME, NATOMS, CFG, PREP) \
  extern "C" void h_c01b_##NAME##_setup() { e2e_make(NATOMS, PRE CFG); } \
  extern "C" void h_c01b_##NAME() { e2e_free_positions(NATOMS); PREP; verif_reach(#NAME); verif_assert(e2e_step() == COLVARS_OK, "step.ok"); e2e_check_forces(NATOMS); }

C01B_CASE(walls_both, 4, DCV "harmonicWalls {\n name b\n colvars v\n lowerWalls 2.0\n upperWalls 4.0\n lowerWallConstant 2.0\n upperWallConstant 5.0\n}\n", ;)
C01B_CASE(walls_upper, 4, DCV "harmonicWalls {\n name b\n colvars v\n upperWalls 3.0\n forceConstant 4.0\n}\n", ;)
C01B_CASE(linear, 4, DCV "linear {\n name b\n colvars v\n centers 1.0\n forceConstant 2.5\n}\n", ;)
C01B_CASE(harmonic2, 5, DCV DCV2 "harmonic {\n name b\n colvars v w\n centers 2.5 0.5\n forceConstant 3.0\n}\n", ;)
C01B_CASE(two_biases, 5, DCV DCV2 "harmonic {\n name b1\n colvars v\n centers 2.5\n forceConstant 3.0\n}\nharmonicWalls {\n name b2\n colvars v w\n lowerWalls 1.0 -1.0\n upperWalls 4.0 1.0\n forceConstant 2.0\n}\nlinear {\n name b3\n colvars w\n centers 0.0\n forceConstant 1.0\n}\n", ;)
C01B_CASE(abmd, 4, DCV "abmd {\n name b\n colvars v\n forceConstant 4.0\n stoppingValue 6.0\n}\n",
  { px->b_simulation_running = true; colvarbias_abmd *a = dynamic_cast<colvarbias_abmd *>(e2e_bias("b")); a->ref_val = verif_sym_double("ref"); a->ref_initialized = true; })
C01B_CASE(abmd_decreasing, 4, DCV "abmd {\n name b\n colvars v\n forceConstant 4.0\n stoppingValue 1.0\n decreasing on\n}\n",
  { px->b_simulation_running = true; colvarbias_abmd *a = dynamic_cast<colvarbias_abmd *>(e2e_bias("b")); a->ref_val = verif_sym_double("ref"); a->ref_initialized = true; })
C01B_CASE(histrestraint, 4, "colvar {\n name v\n width 0.5\n distancePairs {\n group1 { atomNumbers 1 2 }\n group2 { atomNumbers 3 }\n }\n}\n"
  "histogramRestraint {\n name b\n colvars v\n lowerBoundary 1.0\n upperBoundary 3.0\n width 1.0\n gaussianSigma 0.5\n refHistogram 0.25 0.75\n forceConstant 2.0\n}\n", ;)

// metadynamics without grids: the bias is the analytic sum of the hills in the list
static void add_hills(int n) {
  colvarbias_meta *m = dynamic_cast<colvarbias_meta *>(e2e_bias("b"));
  const char *cn[2] = {"c0", "c1"}; const char *wn[2] = {"W0", "W1"};
  for (int i = 0; i < n; i++) {
    std::vector<colvarvalue> c(1, colvarvalue(verif_sym_double(cn[i])));
    std::vector<cvm::real> s(1, i == 0 ? 0.4 : 0.75);
    cvm::real W = verif_sym_double(wn[i]);
    m->add_hill(colvarbias_meta::hill(10 * i, W, c, s));
  }
}
C01B_CASE(meta_nogrid, 4, DCV "metadynamics {\n name b\n colvars v\n hillWeight 0.1\n hillWidth 2.0\n newHillFrequency 100\n useGrids off\n}\n",
  { add_hills(2); px->colvars->it = px->colvars->it_restart = 7; })
