// C14: multiple-walker metadynamics (file-based hill exchange): every walker's view of a peer holds each of the peer's hills exactly once
#include "e2e.h"
#include <cstring>

#define NW 2
static colvarproxy_stub *P[NW];
static void use(int w) { colvarmodule::proxy = P[w]; px = P[w]; }
static colvarbias_meta *meta(int w) { use(w); return dynamic_cast<colvarbias_meta *>(cvm::bias_by_name("m")); }

static std::string conf(int w) {
  return std::string("units real\ncolvarsTrajFrequency 0\n"
    "colvar {\n name d\n width 0.5\n lowerBoundary 1.0\n upperBoundary 3.0\n distance {\n group1 { atomNumbers 1 }\n group2 { atomNumbers 2 }\n }\n}\n"
    "metadynamics {\n name m\n colvars d\n hillWeight 0.1\n hillWidth 2.0\n newHillFrequency 1\n multipleReplicas on\n replicaID w") + cvm::to_str(w) +
    "\n replicasRegistry c14reg.txt\n replicaUpdateFrequency 2\n}\n";
}
static void make_walker(int w) {
  colvarmodule::proxy = nullptr;
  P[w] = new colvarproxy_stub();
  use(w);
  for (int i = 0; i < 2; i++) px->init_atom(i + 1);
  px->b_simulation_running = true;
  px->set_output_prefix(std::string("c14o") + cvm::to_str(w));
  verif_assert(px->colvars->read_config_string(conf(w)) == COLVARS_OK, "config.ok");
  verif_assert(px->colvars->setup_output() == COLVARS_OK, "config.output_ok");
  px->colvars->clear_error();
}

// the harness's record of every hill a walker deposited and of the step of its last synchronisation
#define MAXH 8
struct hill_rec { long it; cvm::real c; };
static hill_rec H[NW][MAXH]; static int NH[NW]; static long LASTSYNC[NW];
static int SYMN = 0;

static void step(int w, long it, int bin) {
  use(w);
  std::string nm = std::string("x") + cvm::to_str(SYMN++);
  cvm::real x = verif_sym_double(nm.c_str());
  verif_assume((x > 1.0 + 0.5 * bin + 0.0625) & (x < 1.5 + 0.5 * bin - 0.0625));
  e2e_pos(0, 0.0, 0.0, 0.0); e2e_pos(1, x, 0.0, 0.0);
  px->atoms_new_colvar_forces[0] = px->atoms_new_colvar_forces[1] = cvm::rvector(0.0, 0.0, 0.0);
  px->colvars->it = it;
  int err = px->colvars->calc_colvars(); err |= px->colvars->calc_biases(); err |= px->colvars->update_colvar_forces();
  verif_assert(err == COLVARS_OK && cvm::get_error() == COLVARS_OK, "step.no_error");
  px->colvars->clear_error();
  if (it > 0) { H[w][NH[w]].it = it; H[w][NH[w]].c = x; NH[w]++; }
  if (it % 2 == 0) LASTSYNC[w] = it;
}
static cvm::real gauss(cvm::real c, cvm::real xh) { cvm::real d = (c - xh) / 0.5; return 0.1 * cvm::exp(-0.5 * (d * d)); }

// walker x's view of walker y: grid of the mirror bias plus its explicit hills not yet projected == every hill y made known, once
static void check_view(int x, int y, long known_upto, const char *label) {
  colvarbias_meta *m = meta(x);
  colvarbias_meta *mir = nullptr;
  std::string want = std::string("w") + cvm::to_str(y);
  for (size_t ir = 1; ir < m->replicas.size(); ir++) if (m->replicas[ir]->replica_id == want) mir = m->replicas[ir];
  verif_assert(mir != nullptr, "view.peer_registered");
  if (!mir) return;
  int nb = (int) mir->hills_energy->data.size();
  verif_assert(nb == 4, "view.grid_size");
  for (int b = 0; b < nb; b++) {
    cvm::real c = 1.0 + 0.5 * b + 0.25;
    cvm::real have = mir->hills_energy->data[b];
    for (colvarbias_meta::hill_iter h = mir->new_hills_begin; h != mir->hills.end(); h++) have += gauss(c, h->centers[0].real_value);
    cvm::real want_e = 0.0;
    for (int k = 0; k < NH[y]; k++) if (H[y][k].it <= known_upto) want_e += gauss(c, H[y][k].c);
    verif_assert_eq(have, want_e, label);
  }
}
// a walker's own bias: each of its own hills once
static void check_own(int x, const char *label) {
  colvarbias_meta *m = meta(x);
  for (int b = 0; b < 4; b++) {
    cvm::real c = 1.0 + 0.5 * b + 0.25;
    cvm::real have = m->hills_energy->data[b];
    for (colvarbias_meta::hill_iter h = m->new_hills_begin; h != m->hills.end(); h++) have += gauss(c, h->centers[0].real_value);
    cvm::real want_e = 0.0;
    for (int k = 0; k < NH[x]; k++) want_e += gauss(c, H[x][k].c);
    verif_assert_eq(have, want_e, label);
  }
}

extern "C" void h_c14m_setup() { px = nullptr; }
extern "C" void h_c14m_exchange() {
  // where walker 1 synchronises relative to walker 0 rewriting its state file and emptying its hills buffer
  int when = verif_choice("sync_point", 3);      // 0: before the state is rewritten, 1: between the two operations, 2: after both
  for (int w = 0; w < NW; w++) { NH[w] = 0; LASTSYNC[w] = -1; }
  for (int w = 0; w < NW; w++) make_walker(w);
  verif_reach("exchange");
  for (long it = 0; it <= 2; it++) { step(0, it, (int) (it % 2) + 1); step(1, it, (int) ((it + 1) % 2) + 1); }
  // at step 2 walker 0 synchronised before walker 1 had written its hill of step 2; walker 1 saw everything walker 0 wrote up to step 2
  check_view(0, 1, 0, "view.after_first_exchange");        // walker 1's last flush before walker 0's sync was at its step 0
  check_view(1, 0, 2, "view.after_first_exchange");
  check_own(0, "own.hills_once"); check_own(1, "own.hills_once");
  // restart-frequency boundary: both walkers rewrite their state and empty their buffer; walker 1 re-reads walker 0 at the chosen point
  colvarbias_meta *m0 = meta(0);
  if (when == 0) { verif_assert(meta(1)->write_state_to_replicas() == COLVARS_OK, "boundary.ok"); verif_assert(meta(1)->replica_share() == COLVARS_OK, "boundary.ok"); }
  use(0); verif_assert(m0->write_replica_state_file() == COLVARS_OK, "boundary.ok");
  if (when == 1) { verif_assert(meta(1)->write_state_to_replicas() == COLVARS_OK, "boundary.ok"); verif_assert(meta(1)->replica_share() == COLVARS_OK, "boundary.ok"); }
  use(0); verif_assert(m0->reopen_replica_buffer_file() == COLVARS_OK, "boundary.ok");
  if (when == 2) { verif_assert(meta(1)->write_state_to_replicas() == COLVARS_OK, "boundary.ok"); verif_assert(meta(1)->replica_share() == COLVARS_OK, "boundary.ok"); }
  verif_assert(cvm::get_error() == COLVARS_OK, "boundary.no_error");
  static const char *LB[3] = {"view.at_state_boundary.reader_before_rewrite", "view.at_state_boundary.reader_between_state_and_buffer", "view.at_state_boundary.reader_after_both"};
  check_view(1, 0, 2, LB[when]);
  // two more steps with an exchange at step 4
  use(0); for (size_t ir = 0; ir < m0->replicas.size(); ir++) m0->replicas[ir]->replica_state_file_in_sync = false;     // walker 0's own part of write_state_to_replicas()
  for (long it = 3; it <= 4; it++) { step(0, it, (int) (it % 2) + 1); step(1, it, (int) ((it + 1) % 2) + 1); }
  check_view(0, 1, 2, "view.after_second_exchange.of_walker1");       // walker 1's last flush before walker 0's sync at step 4 was at step 2
  static const char *LC[3] = {"view.after_second_exchange.of_walker0.reader_before_rewrite", "view.after_second_exchange.of_walker0.reader_between_state_and_buffer", "view.after_second_exchange.of_walker0.reader_after_both"};
  check_view(1, 0, 4, LC[when]);
  check_own(0, "own.hills_once"); check_own(1, "own.hills_once");
}

// a walker that joins late reads its peer's state for the first time while the peer's hills buffer still holds hills already in that state
extern "C" void h_c14m_latejoin() {
  int when = verif_choice("join_point", 2);      // 0: between the peer's state rewrite and buffer reopening, 1: after both
  for (int w = 0; w < NW; w++) { NH[w] = 0; LASTSYNC[w] = -1; }
  make_walker(0);
  verif_reach("latejoin");
  for (long it = 0; it <= 2; it++) step(0, it, (int) (it % 2) + 1);
  colvarbias_meta *m0 = meta(0);
  verif_assert(m0->write_replica_state_file() == COLVARS_OK, "join.ok");
  if (when == 1) verif_assert(m0->reopen_replica_buffer_file() == COLVARS_OK, "join.ok");
  make_walker(1);
  step(1, 2, 2);                                   // first step of the new walker: an exchange step
  static const char *LB[2] = {"view.first_read.between_state_and_buffer", "view.first_read.after_both"};
  check_view(1, 0, 2, LB[when]);
  use(0);
  if (when == 0) verif_assert(m0->reopen_replica_buffer_file() == COLVARS_OK, "join.ok");
  verif_assert(cvm::get_error() == COLVARS_OK, "join.no_error");
}
