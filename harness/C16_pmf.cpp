// C16: PMF integration solves the stated discrete problem; incremental divergence equals batch
#include "e2e.h"
#include "colvargrid.h"
#include <memory>

extern "C" void h_c16_setup() {
  e2e_make(6,
    "units real\ncolvarsTrajFrequency 0\n"
    "colvar {\n name d\n width 0.5\n lowerBoundary 1.0\n upperBoundary 3.0\n distance {\n group1 { atomNumbers 1 }\n group2 { atomNumbers 2 }\n }\n}\n"
    "colvar {\n name z\n width 0.25\n lowerBoundary -0.5\n upperBoundary 0.25\n distanceZ {\n main { atomNumbers 3 }\n ref { atomNumbers 4 }\n }\n}\n"
    "colvar {\n name a\n width 0.5\n lowerBoundary 0.0\n upperBoundary 1.0\n distanceZ {\n main { atomNumbers 3 }\n ref { atomNumbers 5 }\n }\n}\n"
    "colvar {\n name q\n width 180.0\n lowerBoundary -180.0\n upperBoundary 180.0\n distanceZ {\n main { atomNumbers 4 }\n ref { atomNumbers 6 }\n period 360.0\n }\n}\n"
    "colvar {\n name p\n width 90.0\n lowerBoundary -180.0\n upperBoundary 180.0\n distanceZ {\n main { atomNumbers 5 }\n ref { atomNumbers 6 }\n period 360.0\n }\n}\n");
}
static const char *GN[40] = {"g0","g1","g2","g3","g4","g5","g6","g7","g8","g9","g10","g11","g12","g13","g14","g15","g16","g17","g18","g19","g20","g21","g22","g23","g24","g25","g26","g27","g28","g29","g30","g31","g32","g33","g34","g35","g36","g37","g38","g39"};
static const char *XN[24] = {"x0","x1","x2","x3","x4","x5","x6","x7","x8","x9","x10","x11","x12","x13","x14","x15","x16","x17","x18","x19","x20","x21","x22","x23"};
static const char *YN[24] = {"y0","y1","y2","y3","y4","y5","y6","y7","y8","y9","y10","y11","y12","y13","y14","y15","y16","y17","y18","y19","y20","y21","y22","y23"};

// 1-D: the surface is the cumulative sum of bin-averaged gradients times the width (mean removed if periodic)
static void one_d(const char *cvname, bool periodic) {
  std::vector<colvar *> cvs(1, e2e_cv(cvname));
  std::shared_ptr<colvar_grid_count> counts(new colvar_grid_count(cvs));
  std::shared_ptr<colvar_grid_gradient> grad(new colvar_grid_gradient(cvs, counts));
  verif_assert(grad->number_of_points() == 4 && grad->periodic[0] == periodic, "1d.grid");
  int pat = verif_choice("counts", 2);
  size_t cnt[2][4] = {{2, 0, 5, 1}, {3, 3, 3, 3}};
  cvm::real G[4], mean[4], w = grad->widths[0];
  for (int i = 0; i < 4; i++) { G[i] = verif_sym_double(GN[i]); grad->data[i] = G[i]; counts->data[i] = cnt[pat][i]; mean[i] = cnt[pat][i] ? G[i] / (cvm::real) cnt[pat][i] : 0.0; }
  integrate_potential pmf(grad);
  cvm::real err = 0.0;
  verif_reach(periodic ? "1d.periodic" : "1d.nonperiodic");
  pmf.integrate(10, 1e-6, err, false);
  cvm::real corr = periodic ? (mean[0] + mean[1] + mean[2] + mean[3]) / 4.0 : 0.0;
  cvm::real sum = 0.0;
  verif_assert((int) pmf.number_of_points() == (periodic ? 4 : 5), "1d.pmf_size");
  for (int i = 0; i < (periodic ? 4 : 5); i++) {
    verif_assert_eq(pmf.data[i], sum, i == 0 ? "1d.cumsum.0" : i == 1 ? "1d.cumsum.1" : i == 2 ? "1d.cumsum.2" : i == 3 ? "1d.cumsum.3" : "1d.cumsum.4");
    if (i < 4) sum += (mean[i] - corr) * w;
  }
  if (periodic) verif_assert_eq(sum, 0.0, "1d.periodic_closure");
}
extern "C" void h_c16_1d_periodic() { one_d("p", true); }
extern "C" void h_c16_1d_nonperiodic() { one_d("d", false); }

// 2-D: incremental update of the divergence after one gradient bin changed == divergence recomputed from scratch
static void two_d_div(const char *a, const char *b) {
  std::vector<colvar *> cvs; cvs.push_back(e2e_cv(a)); cvs.push_back(e2e_cv(b));
  std::shared_ptr<colvar_grid_gradient> grad(new colvar_grid_gradient(cvs));
  int n = (int) grad->data.size();
  for (int i = 0; i < n && i < 40; i++) grad->data[i] = verif_sym_double(GN[i]);
  integrate_potential pmf(grad);
  pmf.set_div();
  // a new sample changes the gradient of one bin (any bin, chosen symbolically)
  std::vector<int> ix(2);
  ix[0] = verif_choice("bin0", grad->sizes()[0]); ix[1] = verif_choice("bin1", grad->sizes()[1]);
  cvm::real *gp = &(grad->data[grad->address(ix)]);
  gp[0] += verif_sym_double("dg0"); gp[1] += verif_sym_double("dg1");
  verif_reach("2d.divergence");
  pmf.update_div_neighbors(ix);
  std::vector<cvm::real> incremental = pmf.divergence;
  pmf.set_div();
  verif_assert(incremental.size() == pmf.divergence.size() && incremental.size() == pmf.number_of_points(), "2d.div.size");
  for (size_t i = 0; i < incremental.size(); i++) verif_assert_eq(incremental[i], pmf.divergence[i], "2d.div.incremental_equals_batch");
}
extern "C" void h_c16_div_zp() { two_d_div("z", "p"); }
extern "C" void h_c16_div_pz() { two_d_div("p", "z"); }

// 2-D Laplacian: linear, symmetric, annihilates constants (modified Neumann / periodic boundary conditions)
static void two_d_lap(const char *a, const char *b) {
  std::vector<colvar *> cvs; cvs.push_back(e2e_cv(a)); cvs.push_back(e2e_cv(b));
  std::shared_ptr<colvar_grid_gradient> grad(new colvar_grid_gradient(cvs));
  integrate_potential pmf(grad);
  size_t n = pmf.number_of_points();
  std::vector<cvm::real> x(n), y(n), s(n), Lx(n), Ly(n), Ls(n), one(n, 1.0), L1(n);
  cvm::real al = verif_sym_double("alpha");
  for (size_t i = 0; i < n && i < 24; i++) { x[i] = verif_sym_double(XN[i]); y[i] = verif_sym_double(YN[i]); s[i] = x[i] + al * y[i]; }
  verif_reach("2d.laplacian");
  pmf.atimes(x, Lx); pmf.atimes(y, Ly); pmf.atimes(s, Ls); pmf.atimes(one, L1);
  cvm::real xLy = 0.0, yLx = 0.0;
  for (size_t i = 0; i < n; i++) {
    verif_assert_eq(Ls[i], Lx[i] + al * Ly[i], "2d.laplacian.linear");
    verif_assert_eq(L1[i], 0.0, "2d.laplacian.annihilates_constants");
    xLy += x[i] * Ly[i]; yLx += y[i] * Lx[i];
  }
  verif_assert_eq(xLy, yLx, "2d.laplacian.symmetric");
}
extern "C" void h_c16_lap_zp() { two_d_lap("z", "p"); }
extern "C" void h_c16_lap_pz() { two_d_lap("p", "z"); }

// 3-D (non-periodic, periodic, non-periodic): same two statements
extern "C" void h_c16_div_3d() {
  std::vector<colvar *> cvs; cvs.push_back(e2e_cv("a")); cvs.push_back(e2e_cv("q")); cvs.push_back(e2e_cv("z"));
  std::shared_ptr<colvar_grid_gradient> grad(new colvar_grid_gradient(cvs));
  int n = (int) grad->data.size();
  verif_assert(n == 36, "3d.gradient_size");
  for (int i = 0; i < n && i < 40; i++) grad->data[i] = verif_sym_double(GN[i]);
  integrate_potential pmf(grad);
  pmf.set_div();
  std::vector<int> ix(3);
  ix[0] = verif_choice("bin0", 2); ix[1] = verif_choice("bin1", 2); ix[2] = verif_choice("bin2", 3);
  cvm::real *gp = &(grad->data[grad->address(ix)]);
  gp[0] += verif_sym_double("dg0"); gp[1] += verif_sym_double("dg1"); gp[2] += verif_sym_double("dg2");
  verif_reach("3d.divergence");
  pmf.update_div_neighbors(ix);
  std::vector<cvm::real> incremental = pmf.divergence;
  pmf.set_div();
  verif_assert(incremental.size() == 24, "3d.div.size");
  for (size_t i = 0; i < incremental.size(); i++) verif_assert_eq(incremental[i], pmf.divergence[i], "3d.div.incremental_equals_batch");
}
extern "C" void h_c16_lap_3d() {
  std::vector<colvar *> cvs; cvs.push_back(e2e_cv("a")); cvs.push_back(e2e_cv("q")); cvs.push_back(e2e_cv("z"));
  std::shared_ptr<colvar_grid_gradient> grad(new colvar_grid_gradient(cvs));
  integrate_potential pmf(grad);
  size_t n = pmf.number_of_points();
  verif_assert(n == 24, "3d.pmf_size");
  std::vector<cvm::real> x(n), y(n), Lx(n), Ly(n), one(n, 1.0), L1(n);
  for (size_t i = 0; i < n && i < 24; i++) { x[i] = verif_sym_double(XN[i]); y[i] = verif_sym_double(YN[i]); }
  verif_reach("3d.laplacian");
  pmf.atimes(x, Lx); pmf.atimes(y, Ly); pmf.atimes(one, L1);
  cvm::real xLy = 0.0, yLx = 0.0;
  for (size_t i = 0; i < n; i++) { verif_assert_eq(L1[i], 0.0, "3d.laplacian.annihilates_constants"); xLy += x[i] * Ly[i]; yLx += y[i] * Lx[i]; }
  verif_assert_eq(xLy, yLx, "3d.laplacian.symmetric");
}
