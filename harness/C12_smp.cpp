// C12: results do not depend on threading or on the order of evaluation
#include "e2e.h"

class smp_proxy : public colvarproxy_stub {
public:
  int ncalls = 0;
  // the scripted-force task: adds a force to variable d, as a user script would
  int run_force_callback() override {
    ncalls++;
    colvar *d = cvm::colvar_by_name("d");
    if (d) { colvarvalue f(0.25); d->add_bias_force(f); }
    return COLVARS_OK;
  }
};
static smp_proxy *sp = nullptr;

static const char *CONF =
  "units real\ncolvarsTrajFrequency 0\nscriptedColvarForces on\nscriptingAfterBiases off\n"
  "colvar {\n name c\n outputTotalForce on\n"
  " distance {\n componentCoeff 2.0\n group1 { atomNumbers 1 }\n group2 { atomNumbers 2 }\n }\n"
  " distance {\n componentCoeff -1.0\n group1 { atomNumbers 3 }\n group2 { atomNumbers 4 }\n }\n}\n"
  "colvar {\n name d\n distance {\n group1 { atomNumbers 2 }\n group2 { atomNumbers 3 }\n }\n}\n"
  "harmonic {\n name h\n colvars c\n centers 1.0\n forceConstant 2.0\n}\n"
  "harmonic {\n name s\n colvars d\n centers 1.0\n forceConstant 1.0\n timeStepFactor 2\n}\n"
  "harmonic {\n name g\n colvars c d\n centers 0.5 1.5\n forceConstant 3.0\n}\n";

struct rec { cvm::real c, d, ftc, Eh, Es, Eg, Etot, f[4][3]; int ncalls, awake_s; };

static void fresh(bool smp) {
  if (px) { delete px; px = nullptr; }
  px = sp = new smp_proxy();
  for (int i = 0; i < 4; i++) { px->init_atom(i + 1); px->atoms_masses[i] = E2E_MASS[i]; }
  px->b_simulation_running = true;
  verif_assert(px->set_smp_mode(smp ? colvarproxy::smp_mode_t::cvcs : colvarproxy::smp_mode_t::none) == COLVARS_OK, "smp.mode_set");
  int err = px->colvars->read_config_string(std::string(CONF));
  verif_assert(err == COLVARS_OK, "config.ok");
}
static void run(bool smp, cvm::real const *X, cvm::real const *TF, rec *R) {
  fresh(smp);
  colvar *c = cvm::colvar_by_name("c");
  for (int s = 0; s < 2; s++) {
    // step 0: the second component of c is switched off; step 1: switched on again
    std::vector<bool> flags(2, true); if (s == 0) flags[1] = false;
    verif_assert(c->set_cvc_flags(flags) == COLVARS_OK, "flags.ok");
    cvm::real x = X[3 * s], y = X[3 * s + 1], z = X[3 * s + 2];
    e2e_pos(0, 0.0, 0.0, 0.0); e2e_pos(1, x, 0.0, 0.0); e2e_pos(2, x, y, 0.0); e2e_pos(3, x, y, z);
    for (int i = 0; i < 4; i++) { px->atoms_total_forces[i] = cvm::rvector(TF[4 * s + i], 0.5 * TF[4 * s + i], 0.25); px->atoms_new_colvar_forces[i] = cvm::rvector(0.0, 0.0, 0.0); }
    px->colvars->it = s;
    int err = px->colvars->calc_colvars(); err |= px->colvars->calc_biases(); err |= px->colvars->update_colvar_forces();
    verif_assert(err == COLVARS_OK && cvm::get_error() == COLVARS_OK, "step.no_error");
    verif_assert(cvm::main()->depth() == 0, "step.log_depth_restored");
    rec &r = R[s];
    r.c = c->value().real_value; r.d = cvm::colvar_by_name("d")->value().real_value; r.ftc = c->total_force().real_value;
    r.Eh = cvm::bias_by_name("h")->get_energy(); r.Es = cvm::bias_by_name("s")->get_energy(); r.Eg = cvm::bias_by_name("g")->get_energy();
    r.Etot = px->colvars->total_bias_energy; r.ncalls = sp->ncalls; r.awake_s = cvm::bias_by_name("s")->is_enabled(colvardeps::f_cvb_awake);
    for (int a = 0; a < 4; a++) for (int k = 0; k < 3; k++) r.f[a][k] = px->atoms_new_colvar_forces[a][k];
  }
}
extern "C" void h_c12_setup() { px = nullptr; }
extern "C" void h_c12_step() {
  int single_thread = verif_choice("single_thread", 3) - 1;       // -1: the first thread to arrive, 0, 1
  int reverse = verif_choice("reverse_order", 2);
  // quick: 8 logical threads (every work item on its own thread); thorough: also 2 and 3 threads (work items share threads in contiguous chunks)
  static const int TC[3] = {8, 2, 3};
  int nthreads = TC[verif_choice("threads", (int) verif_param("thread_counts", 1))];
  verif_omp_config(nthreads, single_thread, reverse);
  cvm::real X[6], TF[8];
  static const char *XN[6] = {"x0","y0","z0","x1","y1","z1"}; static const char *TN[8] = {"t00","t01","t02","t03","t10","t11","t12","t13"};
  for (int i = 0; i < 6; i++) { X[i] = verif_sym_double(XN[i]); verif_assume(X[i] > 0.25 && X[i] < 4.0); }
  for (int i = 0; i < 8; i++) TF[i] = verif_sym_double(TN[i]);
  verif_reach("step");
  rec S[2], P[2];
  run(false, X, TF, S);
  int r0 = verif_omp_regions();
  run(true, X, TF, P);
  verif_assert(verif_omp_regions() < 0 || verif_omp_regions() >= r0 + 4, "smp.parallel_regions_executed");
  for (int s = 0; s < 2; s++) {
    verif_assert_eq(S[s].c, P[s].c, "serial_equals_parallel.values");
    verif_assert_eq(S[s].d, P[s].d, "serial_equals_parallel.values");
    verif_assert_eq(S[s].ftc, P[s].ftc, "serial_equals_parallel.total_force");
    verif_assert_eq(S[s].Eh, P[s].Eh, "serial_equals_parallel.bias_energies");
    verif_assert_eq(S[s].Es, P[s].Es, "serial_equals_parallel.bias_energies");
    verif_assert_eq(S[s].Eg, P[s].Eg, "serial_equals_parallel.bias_energies");
    verif_assert_eq(S[s].Etot, P[s].Etot, "serial_equals_parallel.total_energy");
    verif_assert(S[s].ncalls == P[s].ncalls && S[s].ncalls == s + 1, "serial_equals_parallel.scripted_task_once_per_step");
    verif_assert(S[s].awake_s == P[s].awake_s, "serial_equals_parallel.schedule");
    for (int a = 0; a < 4; a++) for (int k = 0; k < 3; k++) verif_assert_eq(S[s].f[a][k], P[s].f[a][k], "serial_equals_parallel.atom_forces");
  }
}
