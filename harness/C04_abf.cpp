// C04: ABF stores the mean force per bin and applies its smoothed negative (one inductive step of the real update())
#include "e2e.h"

// proxy whose force-timing convention is fixed before anything is configured
struct abf_proxy : public colvarproxy_stub {
  bool same_step;
  abf_proxy(bool s) : colvarproxy_stub(), same_step(s) {}
  bool total_forces_same_step() const override { return same_step; }
};

#define CONF \
  "units real\ncolvarsTrajFrequency 0\n" \
  "colvar {\n name d\n width 0.5\n lowerBoundary 1.0\n upperBoundary 3.0\n distance {\n group1 { atomNumbers 1 }\n group2 { atomNumbers 2 }\n }\n}\n" \
  "abf {\n name a\n colvars d\n fullSamples 4\n maxForce 7.5\n}\n" \
  "harmonic {\n name h\n colvars d\n centers 1.8\n forceConstant 0.5\n}\n"

static void make(bool same) {
  abf_proxy *p = new abf_proxy(same); px = p;
  for (int i = 0; i < 2; i++) p->init_atom(i + 1);
  e2e_config(CONF);
}
extern "C" void h_c04_setup_lagged() { make(false); }
extern "C" void h_c04_setup_same() { make(true); }

static void positions(cvm::real x) { e2e_pos(0, 0.0, 0.0, 0.0); e2e_pos(1, x, 0.0, 0.0); }
static const char *SN[4] = {"s0", "s1", "s2", "s3"}; static const char *GN[4] = {"G0", "G1", "G2", "G3"};

static void abf_step(bool same) {
  colvarbias_abf *abf = dynamic_cast<colvarbias_abf *>(e2e_bias("a"));
  colvar *cv = e2e_cv("d");
  px->b_simulation_running = true;
  // --- step A, concrete: the variable sits in bin 1; all biases act, so that the next step sees previously applied forces
  for (int i = 0; i < 4; i++) { abf->samples->data[i] = 10; abf->gradients->data[i] = 1.5 * (i + 1) - 4.0; }
  positions(1.75);
  px->colvars->it = 4; px->colvars->it_restart = 0;
  int e = px->colvars->calc_colvars(); e |= px->colvars->calc_biases(); e |= px->colvars->update_colvar_forces();
  verif_assert(e == COLVARS_OK, "stepA.ok");
  cvm::real f_abf_prev = abf->colvar_forces[0].real_value;            // ABF's own force applied at step A
  cvm::real f_all_prev = cv->applied_force().real_value;               // includes the harmonic restraint
  if (!same) verif_assert_eq(f_abf_prev, abf->gradients->data[1] / 10.0, "stepA.abf_force_is_mean");   // (same-step: step A already added its own sample)
  verif_assert(f_all_prev != f_abf_prev, "stepA.other_bias_acts");
  // --- arbitrary accumulated data before step B
  long s[4]; cvm::real G[4];
  for (int i = 0; i < 4; i++) { s[i] = verif_sym_int(SN[i], 0, 12); G[i] = verif_sym_double(GN[i]); abf->samples->data[i] = (size_t) s[i]; abf->gradients->data[i] = G[i]; }
  long fb = verif_sym_int("fb", -1, 4);                               // bin occupied when the measured force was exerted (lagged convention)
  if (!same) abf->force_bin[0] = (int) fb;
  int thr = verif_choice("thresholds", 2);                             // (minSamples, fullSamples): as configured (2, 4) or (0, 3)
  cvm::real mn = thr == 0 ? 2.0 : 0.0, fl = thr == 0 ? 4.0 : 3.0;
  abf->gradients->min_samples = (int) mn; abf->gradients->full_samples = (int) fl; abf->min_samples = (size_t) mn; abf->full_samples = (size_t) fl;
  int sched = verif_choice("schedule", 2);                             // 0: later step of the run, 1: first step of a new run
  px->colvars->it = 5; px->colvars->it_restart = (sched == 0) ? 0 : 5;
  cvm::real x = verif_sym_double("x");
  verif_assume(x > 0.0 && x < 100.0);
  positions(x);
  cvm::real F1 = verif_sym_double("F1x"), F2 = verif_sym_double("F2x");
  (*px->modify_atom_total_forces())[0] = cvm::rvector(F1, verif_sym_double("F1y"), 0.0);
  (*px->modify_atom_total_forces())[1] = cvm::rvector(F2, verif_sym_double("F2y"), 0.0);
  verif_reach(same ? "abf.same_step" : "abf.lagged");
  e = px->colvars->calc_colvars(); e |= px->colvars->calc_biases();
  verif_assert(e == COLVARS_OK, "stepB.ok");
  // documented eligibility: data are accumulated except on the first step of a run
  bool eligible = (sched == 0);
  // the measured total force on the variable: two-site projection along the (fixed) x axis
  cvm::real ft = 0.5 * (F2 - F1);
  if (eligible) verif_assert_eq(cv->total_force().real_value, ft, "total_force.projection");
  long b = (long) cvm::floor((x - 1.0) / 0.5);                        // current bin
  int in_grid = (x >= 1.0) & (x < 3.0);
  long sb = same ? b : fb;                                             // bin the sample belongs to
  int sample = (eligible ? 1 : 0) & (sb >= 0) & (sb < 4);
  cvm::real own = same ? 0.0 : f_abf_prev;                             // lagged total forces contain ABF's own previous force
  cvm::real cnt_b = 0.0, grad_b = 0.0;
  for (int i = 0; i < 4; i++) {
    int hit = sample & (sb == i);
    cvm::real s_exp = (cvm::real) s[i] + (hit ? 1.0 : 0.0), g_exp = G[i] - (hit ? (ft - own) : 0.0);
    verif_assert_eq((cvm::real) abf->samples->data[i], s_exp, i == 0 ? "count.bin0" : i == 1 ? "count.bin1" : i == 2 ? "count.bin2" : "count.bin3");
    verif_assert_eq(abf->gradients->data[i], g_exp, i == 0 ? "gradient.bin0" : i == 1 ? "gradient.bin1" : i == 2 ? "gradient.bin2" : "gradient.bin3");
    int cur = in_grid & (b == i);
    cnt_b = cur ? s_exp : cnt_b; grad_b = cur ? g_exp : grad_b;
  }
  // the bin is remembered for the next (lagged) sample whether or not data were accumulated
  verif_assert(abf->force_bin[0] == (int) b, "force_bin.remembers_current_bin");
  // applied force: mean of the current bin times the ramp between minSamples and fullSamples, capped at maxForce
  cvm::real ramp_mid = (cnt_b - mn) / (fl - mn), ramp_full = 1.0;     // ramp * count
  cvm::real rc = cnt_b <= mn ? 0.0 : (cnt_b < fl ? ramp_mid : ramp_full);
  // f = rc / count * gradient  (count > minSamples whenever rc != 0): compare f * count with rc * gradient to stay polynomial
  cvm::real f = abf->colvar_forces[0].real_value;
  cvm::real f_uncapped_times_cnt = rc * grad_b;
  int capped_hi = (f_uncapped_times_cnt > 7.5 * cnt_b) & (cnt_b > mn), capped_lo = (f_uncapped_times_cnt < -7.5 * cnt_b) & (cnt_b > mn);
  cvm::real lhs = capped_hi ? f : (capped_lo ? f : f * cnt_b), rhs = capped_hi ? 7.5 : (capped_lo ? -7.5 : f_uncapped_times_cnt);
  cvm::real lhs2 = in_grid ? ((cnt_b > mn) ? lhs : f) : f, rhs2 = in_grid ? ((cnt_b > mn) ? rhs : 0.0) : 0.0;
  verif_assert_eq(lhs2, rhs2, "applied_force");
  verif_out_double("f_abf", f);
}
extern "C" void h_c04_lagged() { abf_step(false); }
extern "C" void h_c04_same() { abf_step(true); }
