// C01: applied atomic forces are the negative gradient of the reported energy -- distance-type components
#include "e2e.h"
#define HARM(cv, c) "harmonic {\n name h_" cv "\n colvars " cv "\n centers " c "\n forceConstant 3.0\n}\n"
extern "C" void h_c01d_setup() {
  e2e_make(4,
    "units real\ncolvarsTrajFrequency 0\n"
    "colvar {\n name d\n width 0.5\n distance {\n group1 { atomNumbers 1 2 }\n group2 { atomNumbers 3 4 }\n }\n}\n" HARM("d", "2.5"));
}
extern "C" void h_c01d_distance() {
  e2e_free_positions(4);
  verif_reach("distance");
  verif_assert(e2e_step() == COLVARS_OK, "step.ok");
  e2e_check_forces(4);
}
