// C18: distances, gradients and wrapping of variable values form a consistent metric (value-level part)
#include "colvarmodule.h"
#include "colvartypes.h"
#include "colvarvalue.h"
#include "verif_api.h"

static const char *AN[4] = {"a0", "a1", "a2", "a3"};
static const char *BN[4] = {"b0", "b1", "b2", "b3"};

// ---- scalar
extern "C" void h_c18_scalar() {
  verif_need_module();
  colvarvalue x1(verif_sym_double_ad("a0")), x2(verif_sym_double("b0"));
  verif_reach("scalar");
  cvm::real d = x1.dist2(x2);
  verif_assert(d >= 0.0, "scalar.nonneg");
  verif_assert_eq(d, x2.dist2(x1), "scalar.symmetric");
  verif_assert_eq(d, (x1.real_value - x2.real_value) * (x1.real_value - x2.real_value), "scalar.def");
  verif_assert_deriv(d, "a0", x1.dist2_grad(x2).real_value, "scalar.grad");
  verif_assert((d == 0.0) == (x1.real_value == x2.real_value), "scalar.zero_iff_equal");
  cvm::real lam = verif_sym_double("lam");
  verif_assume(lam >= 0.0 && lam <= 1.0);
  verif_assert_eq(colvarvalue::interpolate(x1, x2, 0.0).real_value, x1.real_value, "scalar.interp0");
  verif_assert_eq(colvarvalue::interpolate(x1, x2, 1.0).real_value, x2.real_value, "scalar.interp1");
  colvarvalue m = colvarvalue::interpolate(x1, x2, lam);
  verif_assert_eq(m.real_value, x1.real_value + lam * (x2.real_value - x1.real_value), "scalar.interp.linear");
  verif_out_double("d", d);
}

// ---- 3-vector
extern "C" void h_c18_vec3() {
  verif_need_module();
  colvarvalue x1(cvm::rvector(verif_sym_double_ad("a0"), verif_sym_double_ad("a1"), verif_sym_double_ad("a2")));
  colvarvalue x2(cvm::rvector(verif_sym_double("b0"), verif_sym_double("b1"), verif_sym_double("b2")));
  verif_reach("vec3");
  cvm::real d = x1.dist2(x2), d21 = x2.dist2(x1);
  verif_assert_eq(d, d21, "vec3.symmetric");
  verif_assert(d >= 0.0, "vec3.nonneg");
  cvm::rvector df = x1.rvector_value - x2.rvector_value;
  verif_assert_eq(d, df.x * df.x + df.y * df.y + df.z * df.z, "vec3.def");
  colvarvalue g = x1.dist2_grad(x2);
  verif_assert_deriv(d, "a0", g.rvector_value.x, "vec3.grad.x");
  verif_assert_deriv(d, "a1", g.rvector_value.y, "vec3.grad.y");
  verif_assert_deriv(d, "a2", g.rvector_value.z, "vec3.grad.z");
  verif_assert_eq(x1.dist2(x1), 0.0, "vec3.zero_self");
  verif_assert((d == 0.0) == (df.x == 0.0 && df.y == 0.0 && df.z == 0.0), "vec3.zero_iff_equal");
  colvarvalue i0 = colvarvalue::interpolate(x1, x2, 0.0), i1 = colvarvalue::interpolate(x1, x2, 1.0);
  verif_assert_eq(i0.dist2(x1), 0.0, "vec3.interp0");
  verif_assert_eq(i1.dist2(x2), 0.0, "vec3.interp1");
  verif_out_double("d", d);
}

// ---- generic vector (length 3, no element types)
extern "C" void h_c18_vector() {
  verif_need_module();
  cvm::vector1d<cvm::real> v1(3), v2(3);
  for (int i = 0; i < 3; i++) { v1[i] = verif_sym_double_ad(AN[i]); v2[i] = verif_sym_double(BN[i]); }
  colvarvalue x1(v1, colvarvalue::type_vector), x2(v2, colvarvalue::type_vector);
  verif_reach("vector");
  cvm::real d = x1.dist2(x2);
  verif_assert_eq(d, x2.dist2(x1), "vector.symmetric");
  verif_assert(d >= 0.0, "vector.nonneg");
  cvm::real ref = 0.0;
  for (int i = 0; i < 3; i++) ref += (v1[i] - v2[i]) * (v1[i] - v2[i]);
  verif_assert_eq(d, ref, "vector.def");
  colvarvalue g = x1.dist2_grad(x2);
  verif_assert(g.vector1d_value.size() == 3, "vector.grad.size");
  for (int i = 0; i < 3; i++) verif_assert_deriv(d, AN[i], g.vector1d_value[i], i == 0 ? "vector.grad.0" : i == 1 ? "vector.grad.1" : "vector.grad.2");
  colvarvalue i0 = colvarvalue::interpolate(x1, x2, 0.0), i1 = colvarvalue::interpolate(x1, x2, 1.0);
  verif_assert_eq(i0.dist2(x1), 0.0, "vector.interp0");
  verif_assert_eq(i1.dist2(x2), 0.0, "vector.interp1");
  verif_out_double("d", d);
}

// ---- unit vector: dist2 is the squared angle; the reported gradient is the derivative with respect to x1
extern "C" void h_c18_unitvec() {
  verif_need_module();
  cvm::rvector a(verif_sym_double_ad("a0"), verif_sym_double_ad("a1"), verif_sym_double_ad("a2"));
  cvm::rvector b(verif_sym_double("b0"), verif_sym_double("b1"), verif_sym_double("b2"));
  colvarvalue x1(a, colvarvalue::type_unit3vector), x2(b, colvarvalue::type_unit3vector);
  // the constructor does not normalise: assume unit vectors (the values a variable of this type takes)
  verif_assume(a * a == 1.0); verif_assume(b * b == 1.0);
  cvm::real c = a * b;
  verif_assume(c > -1.0 && c < 1.0);           // away from the singular (anti)parallel configurations
  verif_reach("unitvec");
  cvm::real d = x1.dist2(x2);
  verif_assert(d >= 0.0, "unitvec.nonneg");
  verif_assert_eq(d, x2.dist2(x1), "unitvec.symmetric");
  colvarvalue g = x1.dist2_grad(x2);
  // tangent projection P = 1 - a a^T of (reported - true derivative) must vanish
  cvm::rvector diff(g.rvector_value.x - verif_deriv(d, "a0"), g.rvector_value.y - verif_deriv(d, "a1"), g.rvector_value.z - verif_deriv(d, "a2"));
  cvm::real s = diff * a;
  verif_assert_eq(diff.x - a.x * s, 0.0, "unitvec.grad.x");
  verif_assert_eq(diff.y - a.y * s, 0.0, "unitvec.grad.y");
  verif_assert_eq(diff.z - a.z * s, 0.0, "unitvec.grad.z");
  verif_out_double("d", d);
}

extern "C" void h_c18_unitvec_interp() {
  verif_need_module();
  cvm::rvector a(verif_sym_double("a0"), verif_sym_double("a1"), verif_sym_double("a2"));
  cvm::rvector b(verif_sym_double("b0"), verif_sym_double("b1"), verif_sym_double("b2"));
  colvarvalue x1(a, colvarvalue::type_unit3vector), x2(b, colvarvalue::type_unit3vector);
  verif_assume(a * a == 1.0); verif_assume(b * b == 1.0);
  cvm::real c = a * b;
  verif_assume(c > -1.0 && c < 1.0);
  cvm::real lam = verif_sym_double("lam");
  verif_assume(lam >= 0.0 && lam <= 1.0);
  verif_reach("unitvec.interp");
  colvarvalue i0 = colvarvalue::interpolate(x1, x2, 0.0), i1 = colvarvalue::interpolate(x1, x2, 1.0);
  verif_assert_eq(i0.rvector_value.x, a.x, "unitvec.interp0.x"); verif_assert_eq(i0.rvector_value.y, a.y, "unitvec.interp0.y"); verif_assert_eq(i0.rvector_value.z, a.z, "unitvec.interp0.z");
  verif_assert_eq(i1.rvector_value.x, b.x, "unitvec.interp1.x"); verif_assert_eq(i1.rvector_value.y, b.y, "unitvec.interp1.y"); verif_assert_eq(i1.rvector_value.z, b.z, "unitvec.interp1.z");
  colvarvalue m = colvarvalue::interpolate(x1, x2, lam);
  verif_assert_eq(m.rvector_value.norm2(), 1.0, "unitvec.interp.on_manifold");
}

// ---- quaternion
static void quat_common(cvm::quaternion &q, cvm::quaternion &Q, bool ad) {
  q = ad ? cvm::quaternion(verif_sym_double_ad("a0"), verif_sym_double_ad("a1"), verif_sym_double_ad("a2"), verif_sym_double_ad("a3"))
         : cvm::quaternion(verif_sym_double("a0"), verif_sym_double("a1"), verif_sym_double("a2"), verif_sym_double("a3"));
  Q = cvm::quaternion(verif_sym_double("b0"), verif_sym_double("b1"), verif_sym_double("b2"), verif_sym_double("b3"));
  verif_assume(q.norm2() == 1.0); verif_assume(Q.norm2() == 1.0);
  // Cauchy-Schwarz for unit quaternions, supplied as a lemma (the solver cannot derive it cheaply)
  cvm::real cs = q.q0 * Q.q0 + q.q1 * Q.q1 + q.q2 * Q.q2 + q.q3 * Q.q3;
  verif_assume(cs >= -1.0 && cs <= 1.0);
}

extern "C" void h_c18_quat() {
  verif_need_module();
  cvm::quaternion q, Q; quat_common(q, Q, true);
  cvm::real c = q.q0 * Q.q0 + q.q1 * Q.q1 + q.q2 * Q.q2 + q.q3 * Q.q3;
  verif_assume(c > -1.0 && c < 1.0 && c != 0.0);      // identical / opposite quaternions and the cut locus are singular
  verif_assume(cvm::sqrt(1.0 - c * c) >= 3.0e-14);    // the code's own guard: for |sin(omega)| < 1e-14 a null gradient is returned
  colvarvalue x1(q), x2(Q);
  verif_reach("quat");
  cvm::real d = x1.dist2(x2);
  verif_assert(d >= 0.0, "quat.nonneg");
  verif_assert_eq(d, x2.dist2(x1), "quat.symmetric");
  // sign flips of either argument describe the same rotation
  colvarvalue x1m(cvm::quaternion(-q.q0, -q.q1, -q.q2, -q.q3)), x2m(cvm::quaternion(-Q.q0, -Q.q1, -Q.q2, -Q.q3));
  verif_assert_eq(x1m.dist2(x2), d, "quat.flip1");
  verif_assert_eq(x1.dist2(x2m), d, "quat.flip2");
  colvarvalue g = x1.dist2_grad(x2);
  cvm::real df[4] = { g.quaternion_value.q0 - verif_deriv(d, "a0"), g.quaternion_value.q1 - verif_deriv(d, "a1"),
                      g.quaternion_value.q2 - verif_deriv(d, "a2"), g.quaternion_value.q3 - verif_deriv(d, "a3") };
  cvm::real s = df[0] * q.q0 + df[1] * q.q1 + df[2] * q.q2 + df[3] * q.q3;
  verif_assert_eq(df[0] - q.q0 * s, 0.0, "quat.grad.0");
  verif_assert_eq(df[1] - q.q1 * s, 0.0, "quat.grad.1");
  verif_assert_eq(df[2] - q.q2 * s, 0.0, "quat.grad.2");
  verif_assert_eq(df[3] - q.q3 * s, 0.0, "quat.grad.3");
  verif_out_double("d", d);
}

extern "C" void h_c18_quat_zero() {
  verif_need_module();
  // distance zero only for equivalent values: d == 0 implies q == +-Q (unit quaternions)
  cvm::quaternion q, Q; quat_common(q, Q, false);
  colvarvalue x1(q), x2(Q);
  verif_reach("quat.zero");
  cvm::real d = x1.dist2(x2);
  cvm::real c = q.q0 * Q.q0 + q.q1 * Q.q1 + q.q2 * Q.q2 + q.q3 * Q.q3;
  verif_assert(!(d == 0.0) || c == 1.0 || c == -1.0, "quat.zero_only_equivalent");
  verif_assert_eq(x1.dist2(x1), 0.0, "quat.zero_self");
}

extern "C" void h_c18_quat_interp() {
  verif_need_module();
  cvm::quaternion q, Q; quat_common(q, Q, false);
  cvm::real c = q.q0 * Q.q0 + q.q1 * Q.q1 + q.q2 * Q.q2 + q.q3 * Q.q3;
  verif_assume(c > -1.0 && c < 1.0);
  colvarvalue x1(q), x2(Q);
  cvm::real lam = verif_sym_double("lam");
  verif_assume(lam >= 0.0 && lam <= 1.0);
  verif_reach("quat.interp");
  colvarvalue i0 = colvarvalue::interpolate(x1, x2, 0.0), i1 = colvarvalue::interpolate(x1, x2, 1.0);
  verif_assert_eq(i0.quaternion_value.q0, q.q0, "quat.interp0.0"); verif_assert_eq(i0.quaternion_value.q3, q.q3, "quat.interp0.3");
  verif_assert_eq(i1.quaternion_value.q1, Q.q1, "quat.interp1.1"); verif_assert_eq(i1.quaternion_value.q2, Q.q2, "quat.interp1.2");
  colvarvalue m = colvarvalue::interpolate(x1, x2, lam);
  verif_assert_eq(m.quaternion_value.norm2(), 1.0, "quat.interp.on_manifold");
}

// ---- apply_constraints projects on the manifold
extern "C" void h_c18_constraints() {
  verif_need_module();
  cvm::rvector a(verif_sym_double("a0"), verif_sym_double("a1"), verif_sym_double("a2"));
  verif_assume(a.norm2() > 0.0);
  colvarvalue u(a, colvarvalue::type_unit3vector);
  u.apply_constraints();
  verif_reach("constraints");
  verif_assert_eq(u.rvector_value.norm2(), 1.0, "constraints.unitvec.norm");
  verif_assert_eq(u.rvector_value.x * a.y, u.rvector_value.y * a.x, "constraints.unitvec.direction");
  cvm::quaternion q(verif_sym_double("b0"), verif_sym_double("b1"), verif_sym_double("b2"), verif_sym_double("b3"));
  verif_assume(q.norm2() > 0.0);
  colvarvalue v(q); v.apply_constraints();
  verif_assert_eq(v.quaternion_value.norm2(), 1.0, "constraints.quat.norm");
  colvarvalue s(verif_sym_double("s")); cvm::real s0 = s.real_value; s.apply_constraints();
  verif_assert_eq(s.real_value, s0, "constraints.scalar.identity");
}
