# Property-check framework: runs harness groups, confirms violations by native replay, applies the known-findings file,
# writes the evidence file, prints VIOLATION / KNOWN-FINDING lines and chooses the exit status.
import os, sys, time, json, hashlib, traceback
from fractions import Fraction
from . import build, session as S, explore as EX, replay as RP, rdom as R
from .interp import Interp

VERIF = build.VERIF

class Group:
    """one harness translation unit: optional set-up functions (run once, concretely) and harness functions (explored)"""
    def __init__(self, file, functions, setup=(), omp=False, fmode='exact', stubs=(), bounds=None, max_paths=400, path_time=240, total_time=900,
                 expect_monitor=False, diff=True, notes=None, ext=None):
        self.file = file; self.functions = list(functions); self.setup = list(setup); self.omp = omp; self.fmode = fmode; self.stubs = list(stubs)
        self.bounds = bounds or {}; self.max_paths = max_paths; self.path_time = path_time; self.total_time = total_time
        self.diff = diff; self.notes = notes or []; self.ext = ext or {}; self.workers = None

def load_known():
    p = os.path.join(VERIF, 'known_findings.json')
    if not os.path.exists(p): return []
    with open(p) as f: return json.load(f).get('findings', [])

def run_group(pid, g, tier, seed, known, rep_dir):
    """executed in a forked child: returns a picklable dict with everything run_check needs"""
    out = {'harnesses': [], 'violations': [], 'inconclusive': [], 'known': [], 'functions': set(), 'stubs': set(), 'trans': set(), 'build': None, 'infra': [], 'samples': [],
           'tot': {'paths': 0, 'steps': 0, 'nq': 0, 'tq': 0.0, 'obligations': 0, 'discharged': 0, 'witness_ok': 0, 'witness_bad': 0, 'diff_ok': 0, 'diff_bad': 0, 'setup_steps': 0, 'denoms': 0}}
    tot = out['tot']
    try:
        ses = S.Session([g.file], omp=g.omp, fmode=g.fmode, stub_prefixes=g.stubs, ext=g.ext)
        out['build'] = ses.build_info
        for fn in g.setup: ses.setup(fn)
        tot['setup_steps'] += ses.setup_steps
        if g.setup and ses.I.outs.get('config_err') not in (None, 0):
            out['infra'].append('%s: configuration rejected during set-up (%r): %s' % (g.file, ses.I.outs.get('config_err'), (ses.I.ext.get('errors') or ['?'])[-1][:300])); return out
    except SystemExit: out['infra'].append('%s: build failed' % g.file); return out
    except BaseException as ex:
        out['infra'].append('%s: set-up failed: %s' % (g.file, traceback.format_exc()[-1500:])); return out
    for fn in g.functions:
        t0 = time.time()
        paths, summ = ses.explore(fn, max_paths=g.max_paths, path_time=g.path_time, total_time=g.total_time, workers=g.workers)
        h = {'harness': fn, 'file': 'harness/' + g.file, 'setup': g.setup, 'paths': summ['paths'], 'by_status': summ['by_status'], 'asserts': summ['asserts'],
             'witnesses': summ['witnesses'], 'instructions': summ['steps'], 'queries': summ['nq'], 'solver_s': round(summ['tq'], 2), 'wall_s': round(time.time() - t0, 2),
             'bounds': g.bounds, 'nonzero_divisor_assumptions': summ['denoms'], 'sqrt_generators': summ['gens'], 'arith': 'exact-real' if g.fmode == 'exact' else 'ieee-concrete'}
        tot['paths'] += summ['paths']; tot['steps'] += summ['steps']; tot['nq'] += summ['nq']; tot['tq'] += summ['tq']; tot['denoms'] = max(tot['denoms'], summ['denoms'])
        out['functions'].update(summ['called']); out['stubs'].update(summ['stubs']); out['trans'].update(summ['trans'])
        nobl = sum(sum(v.values()) for v in summ['asserts'].values()); ndis = sum(v.get('unsat', 0) for v in summ['asserts'].values())
        tot['obligations'] += nobl; tot['discharged'] += ndis
        for lab, w in summ['witnesses'].items():
            if w['sat'] > 0: tot['witness_ok'] += 1
            else:
                tot['witness_bad'] += 1; out['inconclusive'].append({'harness': fn, 'label': 'witness:' + lab, 'msg': 'vacuity witness not satisfiable/decided on any path'})
        if not summ['witnesses'] and not any(p['status'] in ('ok', 'monitor') for p in paths):
            out['inconclusive'].append({'harness': fn, 'label': 'reach', 'msg': 'no path reached the end of the harness'})
        for inc in summ['inconclusive']:
            inc = dict(inc); inc['harness'] = fn; out['inconclusive'].append(inc)
        for p in paths[:3]:
            for r in p.get('results', [])[:4]:
                if len(out['samples']) < 6: out['samples'].append({'harness': fn, 'decisions': p['decisions'][:12], 'obligation': r['label'], 'kind': r['kind'], 'solver': r['status'], 'how': r.get('how')})
        seen = set()
        for v in summ['violations']:
            key = (fn, v['label'])
            if key in seen: continue
            seen.add(key)
            model = dict(v.get('model') or {})
            if v.get('choices'): model.update(v['choices'])
            kf = match_known(known, fn, v)
            rp = os.path.join(rep_dir, '%s.%s.json' % (fn, hashlib.sha1(v['label'].encode()).hexdigest()[:8]))
            conf = None
            try: conf = None if v['label'].startswith('race:') else RP.replay(g.file, g.setup + [fn], model, seed=seed, omp=g.omp, timeout=(20 if v['label'].startswith('monitor:hang') else 120))
            except SystemExit: conf = {'error': 'native build failed'}
            except BaseException as ex: conf = {'error': str(ex)[:500]}
            reproduced = False
            if v['label'].startswith('race:'):
                # a data race is not observable in one native run under ASan/UBSan: confirmed by re-executing the IR concretely on the model's inputs
                # (the access sets of the logical threads are deterministic) and reported on that basis
                conf = {'concrete_ir_rerun': concrete_races(ses, fn, model, seed)}
                reproduced = bool(conf['concrete_ir_rerun'])
            elif conf and 'error' not in conf:
                if v['label'].startswith('monitor:'): reproduced = bool(conf.get('crash'))
                else: reproduced = v['label'] in conf.get('failed', []) or bool(conf.get('crash'))
            rec = {'property': pid, 'harness': fn, 'file': 'harness/' + g.file, 'setup': g.setup, 'label': v['label'], 'msg': v.get('msg'), 'inputs': model,
                   'decisions': v.get('decisions'), 'stack': v.get('stack'), 'native': conf, 'reproduced_natively': reproduced,
                   'replay_cmd': './check %s --replay %s' % (pid, os.path.relpath(rp, VERIF))}
            with open(rp, 'w') as f: json.dump(rec, f, indent=1, default=str)
            rec['replay'] = rp
            if kf is not None and kf.get('status') == 'known':
                out['known'].append({'harness': fn, 'label': v['label'], 'text': kf.get('text', ''), 'reproduced_natively': reproduced})
            elif reproduced: out['violations'].append(rec)
            else:
                out['inconclusive'].append({'harness': fn, 'label': v['label'], 'msg': 'solver model did not reproduce natively (encoding error?)', 'replay': rp, 'native': str(conf)[:600]})
        if g.diff:
            K = 2 if tier == 'quick' else 6
            try:
                ok, bad, dsamples = differential(ses, g, fn, K, seed)
                tot['diff_ok'] += ok; tot['diff_bad'] += len(bad)
                h['differential'] = {'runs': ok + len(bad), 'agree': ok}
                for b in bad: out['inconclusive'].append({'harness': fn, 'label': 'differential', 'msg': 'interpreter and native build disagree on concrete inputs: %s' % (b,)})
            except SystemExit: out['infra'].append('%s: native build failed' % fn)
            except BaseException as ex:
                out['infra'].append('%s: differential run failed: %s' % (fn, traceback.format_exc()[-800:]))
        out['harnesses'].append(h)
        sys.stderr.write('[%s] %s: %d paths %s, %d/%d obligations unsat, %.1fs\n' % (pid, fn, summ['paths'], summ['by_status'], ndis, nobl, time.time() - t0))
    return out

def run_check(pid, groups, tier, level_text, assumptions, outside_claim, technique):
    import pickle
    t_start = time.time()
    seed = int(os.environ.get('VERIF_SEED', '1') or 1)
    known = [k for k in load_known() if k.get('property') == pid]
    os.makedirs(os.path.join(VERIF, 'evidence'), exist_ok=True)
    rep_dir = os.path.join(VERIF, 'replays', pid); os.makedirs(rep_dir, exist_ok=True)
    ev = {'harnesses': [], 'violations': [], 'inconclusive': [], 'known': [], 'functions': set(), 'stubs': set(), 'trans': set(), 'build': None}
    tot = {'paths': 0, 'steps': 0, 'nq': 0, 'tq': 0.0, 'obligations': 0, 'discharged': 0, 'witness_ok': 0, 'witness_bad': 0, 'diff_ok': 0, 'diff_bad': 0, 'setup_steps': 0, 'denoms': 0}
    samples = []; infra = []
    # build everything once in the parent (children then only hit the cache)
    try:
        build.build_module(sorted(set(g.file for g in groups if not g.omp)))
        if any(g.omp for g in groups): build.build_module(sorted(set(g.file for g in groups if g.omp)), omp=True)
        if any(g.diff for g in groups):
            build.native_lib(False)
            for f in sorted(set(g.file for g in groups if not g.omp)): build.native_harness(f, False)
    except SystemExit:
        infra.append('build failed')
    npar = max(1, min(len(groups), int(os.environ.get('VERIF_GROUP_PAR', '6'))))
    # path children of all groups draw from one pool of tokens (one per core); every group may always run one path without a token
    import multiprocessing
    ncpu = int(os.environ.get('VERIF_CORES', '16'))
    EX.POOL = multiprocessing.BoundedSemaphore(max(1, ncpu - min(npar, len(groups))))
    for g in groups:
        if getattr(g, 'workers', None) is None: g.workers = ncpu
    pending = list(enumerate(groups)); running = {}; results = {}
    while (pending or running) and not infra:
        while pending and len(running) < npar:
            gi, g = pending.pop(0)
            r, w = os.pipe(); cpid = os.fork()
            if cpid == 0:
                os.close(r)
                try: data = pickle.dumps(run_group(pid, g, tier, seed, known, rep_dir))
                except BaseException as ex: data = pickle.dumps({'infra': ['%s: group runner failed: %s' % (g.file, traceback.format_exc()[-1500:])]})
                with os.fdopen(w, 'wb') as f: f.write(data)
                os._exit(0)
            os.close(w); running[r] = (cpid, gi, bytearray())
        import select
        rl, _, _ = select.select(list(running), [], [], 1.0)
        for fd in rl:
            chunk = os.read(fd, 1 << 20)
            if chunk: running[fd][2].extend(chunk); continue
            cpid, gi, buf = running.pop(fd); os.close(fd); os.waitpid(cpid, 0)
            try: results[gi] = pickle.loads(bytes(buf))
            except Exception: results[gi] = {'infra': ['group %d died without a result' % gi]}
    for gi in sorted(results):
        o = results[gi]
        infra += o.get('infra', [])
        if 'tot' not in o: continue
        for k in tot:
            if k == 'denoms': tot[k] = max(tot[k], o['tot'][k])
            else: tot[k] += o['tot'][k]
        for k in ('harnesses', 'violations', 'inconclusive', 'known'): ev[k] += o[k]
        for k in ('functions', 'stubs', 'trans'): ev[k].update(o[k])
        if o.get('build'): ev['build'] = o['build']
        samples += o['samples']
    samples = samples[:14]
    wall = time.time() - t_start
    nviol = len(ev['violations'])
    evidence = {
        'property_id': pid, 'tier': tier, 'seed': seed, 'level': 'model_checking',
        'coverage': {
            'states': max(1, tot['paths']), 'transitions': max(1, tot['steps']), 'traces_validated_against_impl': tot['diff_ok'],
            'samples': samples or [{'note': 'no obligation was reached'}],
            'obligations': tot['obligations'], 'discharged': tot['discharged'],
            'explanation': 'symbolic execution of the clang-14 LLVM IR of the current /repo sources by the cvsym interpreter; states = feasible paths explored, '
                           'transitions = IR instructions executed symbolically, obligations = assertion queries posed to z3 (discharged = unsat)',
            'functions_encoded': sorted(f for f in ev['functions'] if not f.startswith('_ZNS') and not f.startswith('_ZNKS') and not f.startswith('_ZSt'))[:400],
            'n_functions_encoded': len(ev['functions']),
            'harnesses': ev['harnesses'], 'queries': tot['nq'], 'solver_time_s': round(tot['tq'], 2), 'setup_instructions_concrete': tot['setup_steps'],
            'vacuity_witnesses': {'sat': tot['witness_ok'], 'not_sat': tot['witness_bad']},
            'stubs': sorted(ev['stubs'])[:200], 'transcendental_generators': sorted(ev['trans']),
            'outside_claim': outside_claim, 'technique': technique, 'build': ev['build'],
            'known_findings_hit': ev['known'], 'inconclusive': ev['inconclusive'][:20], 'infrastructure_errors': infra[:10],
            'checker_cmd': './check %s --tier %s' % (pid, tier),
            'trusted_base': ['clang-14 / LLVM DataLayout', 'tools/irdump.cpp', 'cvsym interpreter + exact-real domain (cvsym/*.py)', 'z3 5.1', 'support/*.cpp shims (libstdc++ out-of-line parts)'],
        },
        'assumptions': assumptions + (['every executed division by a symbolic real has a non-zero divisor (up to %d such assumptions per path): singular geometries are outside the claim' % tot['denoms']] if tot['denoms'] else []),
        'wall_s': round(wall, 2), 'violations': nviol,
    }
    with open(os.path.join(VERIF, 'evidence', pid + '.json'), 'w') as f: json.dump(evidence, f, indent=1, default=str)
    for k in ev['known']: print('KNOWN-FINDING: property=%s %s [%s %s]' % (pid, k['text'], k['harness'], k['label']))
    for v in ev['violations']: print('VIOLATION property=%s replay=%s' % (pid, v['replay']))
    if nviol:
        for v in ev['violations']: sys.stderr.write('  violated: %s %s inputs=%s\n' % (v['harness'], v['label'], json.dumps(v['inputs'])[:300]))
        return 1
    if infra:
        for m in infra: sys.stderr.write('INFRASTRUCTURE: %s\n' % m)
        return 2
    if ev['inconclusive']:
        for inc in ev['inconclusive'][:10]: print('INCONCLUSIVE property=%s %s: %s %s' % (pid, inc.get('harness'), inc.get('label'), str(inc.get('msg'))[:300]))
        return 3
    print('OK property=%s tier=%s paths=%d obligations=%d/%d queries=%d solver=%.1fs wall=%.1fs' % (pid, tier, tot['paths'], tot['discharged'], tot['obligations'], tot['nq'], tot['tq'], wall))
    return 0

def match_known(known, fn, v):
    for k in known:
        if k.get('harness') == fn and k.get('label') == v['label']: return k
    return None

def concrete_races(ses, fn, model, seed):
    I = ses.I
    r, w = os.pipe(); pid = os.fork()
    if pid == 0:
        os.close(r)
        try:
            I.m.reopen(); I.inputs = RP.DefaultInputs(seed, model); I.ext['concrete_irrational'] = 'host'
            EX.run_path(I, fn, [], 300)
            data = json.dumps(I.ext.get('races') or []).encode()
        except BaseException as ex: data = b'[]'
        with os.fdopen(w, 'wb') as f: f.write(data)
        os._exit(0)
    os.close(w)
    with os.fdopen(r, 'rb') as f: data = f.read()
    os.waitpid(pid, 0)
    try: return json.loads(data.decode())[:3]
    except Exception: return []

def differential(ses, g, fn, K, seed):
    """run harness fn on K concrete inputs both in the interpreter and natively; compare verif_out_* values"""
    exe = build.native_harness(g.file, g.omp)
    ok = 0; bad = []; samples = []
    for k in range(K):
        sd = seed * 1000 + k
        nat = RP.run_native(exe, g.setup + [fn], {('param.' + k): v for k, v in (g.ext.get('params') or {}).items()} or None, seed=sd)
        I = ses.I
        r, w = os.pipe(); pid = os.fork()
        if pid == 0:
            os.close(r)
            try:
                I.m.reopen(); I.inputs = RP.DefaultInputs(sd); I.ext['concrete_irrational'] = 'host'
                res = EX.run_path(I, fn, [], 300)
                outs = {}
                for kk, vv in I.outs.items():
                    try: outs[kk] = (R.to_float(vv) if isinstance(vv, R.RV) else float(vv)) if not isinstance(vv, str) else vv
                    except Exception: outs[kk] = 'sym'
                data = json.dumps({'status': res['status'], 'msg': res['msg'], 'outs': outs}).encode()
            except BaseException as ex: data = json.dumps({'status': 'internal', 'msg': traceback.format_exc()[-800:], 'outs': {}}).encode()
            with os.fdopen(w, 'wb') as f: f.write(data)
            os._exit(0)
        os.close(w)
        with os.fdopen(r, 'rb') as f: data = f.read()
        os.waitpid(pid, 0)
        try: res = json.loads(data.decode())
        except Exception: res = {'status': 'internal', 'msg': 'no result', 'outs': {}}
        if res['status'] == 'vacuous' and nat.get('assume_false'): ok += 1; continue
        if nat.get('assume_false') and not nat['crash']: ok += 1; continue      # assumption false natively (rounding): nothing to compare      # assumption false on this input, both sides agree
        if res['status'] == 'monitor' and nat['crash']: ok += 1; continue
        if res['status'] != 'ok' or nat['crash']:
            bad.append({'seed': sd, 'interp': res['status'], 'msg': (res['msg'] or '')[:200], 'native_rc': nat['rc'], 'native_crash': nat['crash'], 'stderr': nat['stderr'][-300:]}); continue
        mism = []
        for kk, nv in nat['outs'].items():
            iv = res['outs'].get(kk)
            if iv is None: mism.append((kk, 'missing in interpreter')); continue
            if isinstance(nv, str) or isinstance(iv, str):
                if str(nv) != str(iv): mism.append((kk, iv, nv))
                continue
            if nv != nv and iv != iv: continue
            if abs(nv - iv) > 1e-7 * max(1.0, abs(nv), abs(iv)): mism.append((kk, iv, nv))
        if mism: bad.append({'seed': sd, 'mismatch': mism[:5]})
        else: ok += 1
    return ok, bad, samples

def main(pid, build_groups, level_text, assumptions, outside_claim, technique):
    tier = os.environ.get('VERIF_TIER', 'quick')
    args = sys.argv[1:]
    if '--tier' in args: tier = args[args.index('--tier') + 1]
    def go():
        groups = build_groups(tier)
        only = os.environ.get('VERIF_ONLY')      # development aid: restrict the run to some harness functions (the evidence then describes only those)
        if only:
            for g in groups: g.functions = [f for f in g.functions if f in only.split(',')]
            groups = [g for g in groups if g.functions]
        return run_check(pid, groups, tier, level_text, assumptions, outside_claim, technique)
    rc = S.in_big_thread(go)
    sys.stdout.flush()
    os._exit(rc if rc is not None else 2)
