# Build pipeline: /repo working tree -> per-TU LLVM bitcode -> opt -> irdump JSON lines (content-addressed cache)
import hashlib, os, subprocess, sys, glob, json, time
from concurrent.futures import ThreadPoolExecutor

VERIF = os.path.dirname(os.path.dirname(os.path.abspath(__file__)))
REPO = os.environ.get('VERIF_REPO', '/repo')
CACHE = os.path.join(VERIF, '.cache')
CLANG = 'clang++-14'
OPT = 'opt-14'
IRDUMP = os.path.join(CACHE, 'irdump')
BASEFLAGS = ['-std=c++17', '-O1', '-Xclang', '-disable-llvm-passes', '-fno-vectorize', '-fno-slp-vectorize',
             '-emit-llvm', '-c', '-w', '-DCOLVARS_VERIF']
PASSES = 'sroa,early-cse,instcombine,simplifycfg'

def sh(cmd, **kw):
    r = subprocess.run(cmd, stdout=subprocess.PIPE, stderr=subprocess.STDOUT, **kw)
    if r.returncode != 0:
        sys.stderr.write('BUILD FAILED: %s\n%s\n' % (' '.join(cmd), r.stdout.decode(errors='replace')[-4000:]))
        raise SystemExit(2)
    return r.stdout

def fhash(path):
    h = hashlib.sha256()
    with open(path, 'rb') as f: h.update(f.read())
    return h.hexdigest()

def ensure_irdump():
    os.makedirs(CACHE, exist_ok=True)
    src = os.path.join(VERIF, 'tools', 'irdump.cpp')
    tag = IRDUMP + '.' + fhash(src)[:16]
    if os.path.exists(IRDUMP) and os.path.exists(tag): return
    cxx = sh(['llvm-config-14', '--cxxflags']).decode().split()
    ld = sh(['llvm-config-14', '--ldflags']).decode().split()
    sh([CLANG, '-O1'] + cxx + ['-fexceptions', src, '-o', IRDUMP] + ld + ['-lLLVM-14'])
    open(tag, 'w').close()

def headers_digest():
    h = hashlib.sha256()
    pats = [REPO + '/src/*.h', REPO + '/misc_interfaces/stubs/*.h', VERIF + '/support/*.h', VERIF + '/harness/*.h']
    for p in pats:
        for f in sorted(glob.glob(p)):
            h.update(f.encode()); h.update(fhash(f).encode())
    return h.hexdigest()

def tu_build(src, flags, hd, tag):
    """compile one TU -> jsonl path (cached)"""
    key = hashlib.sha256(('|'.join(flags) + '|' + hd + '|' + fhash(src) + '|' + fhash(os.path.join(VERIF, 'tools', 'irdump.cpp')) + '|' + tag).encode()).hexdigest()[:24]
    out = os.path.join(CACHE, 'tu', key + '.jsonl')
    if os.path.exists(out): return out, key, False
    os.makedirs(os.path.dirname(out), exist_ok=True)
    bc = out[:-6] + '.bc'; obc = out[:-6] + '.o.bc'
    sh([CLANG] + BASEFLAGS + flags + [src, '-o', bc])
    sh([OPT, '-passes=' + PASSES, bc, '-o', obc])
    tmp = out + '.tmp%d' % os.getpid()
    with open(tmp, 'wb') as f:
        r = subprocess.run([IRDUMP, obc, tag], stdout=f, stderr=subprocess.PIPE)
    if r.returncode != 0:
        sys.stderr.write('irdump failed on %s: %s\n' % (src, r.stderr.decode()[-2000:])); raise SystemExit(2)
    os.replace(tmp, out)
    os.unlink(bc); os.unlink(obc)
    return out, key, True

def lib_sources():
    srcs = sorted(glob.glob(REPO + '/src/*.cpp'))
    # optional back ends that are not part of this build (no torch, no lepton)
    srcs.append(REPO + '/misc_interfaces/stubs/colvarproxy_stub.cpp')
    return srcs

def build_module(harnesses, omp=False, extra_flags=()):
    """returns (list of jsonl paths, module key, info dict)"""
    t0 = time.time()
    ensure_irdump()
    hd = headers_digest()
    inc = ['-I' + REPO + '/src', '-I' + REPO + '/misc_interfaces/stubs', '-I' + VERIF + '/support', '-I' + VERIF + '/harness']
    libflags = inc + (['-fopenmp'] if omp else []) + list(extra_flags)
    jobs = []
    for s in lib_sources(): jobs.append((s, libflags, 'L' + os.path.basename(s)[:-4]))
    for s in sorted(glob.glob(VERIF + '/support/*.cpp')):
        if os.path.basename(s).startswith('native_'): continue
        jobs.append((s, inc + ['-fno-access-control'], 'S' + os.path.basename(s)[:-4]))
    for h in harnesses:
        jobs.append((os.path.join(VERIF, 'harness', h), libflags + ['-fno-access-control'], 'H' + h[:-4]))
    with ThreadPoolExecutor(16) as ex:
        res = list(ex.map(lambda j: tu_build(j[0], j[1], hd, j[2]), jobs))
    paths = [r[0] for r in res]
    key = hashlib.sha256('|'.join(r[1] for r in res).encode()).hexdigest()[:24]
    info = {'tus': len(jobs), 'recompiled': sum(1 for r in res if r[2]), 'build_s': round(time.time() - t0, 2),
            'flags': ' '.join(BASEFLAGS + (['-fopenmp'] if omp else [])), 'passes': PASSES,
            'sources': [os.path.relpath(j[0], REPO) if j[0].startswith(REPO) else os.path.relpath(j[0], VERIF) for j in jobs]}
    return paths, key, info

# ---------------- native build (replay and differential runs)
NATIVE_FLAGS = ['-std=c++17', '-O1', '-g0', '-w', '-DCOLVARS_VERIF', '-DVERIF_NATIVE', '-pthread', '-fsanitize=address,undefined', '-fno-sanitize=vptr,function,nonnull-attribute', '-fno-sanitize-recover=all', '-fno-omit-frame-pointer']

def native_lib(omp=False):
    """compile the library natively into cached objects; returns list of .o"""
    hd = headers_digest()
    inc = ['-I' + REPO + '/src', '-I' + REPO + '/misc_interfaces/stubs']
    flags = NATIVE_FLAGS + inc + (['-fopenmp'] if omp else [])
    def one(src):
        key = hashlib.sha256(('|'.join(flags) + '|' + hd + '|' + fhash(src)).encode()).hexdigest()[:24]
        out = os.path.join(CACHE, 'obj', key + '.o')
        if not os.path.exists(out):
            os.makedirs(os.path.dirname(out), exist_ok=True)
            sh([CLANG] + flags + ['-c', src, '-o', out + '.tmp%d' % os.getpid()]); os.replace(out + '.tmp%d' % os.getpid(), out)
        return out
    with ThreadPoolExecutor(16) as ex: return list(ex.map(one, lib_sources()))

def native_harness(harness, omp=False):
    """build native executable for one harness file; returns path"""
    objs = native_lib(omp)
    hd = headers_digest()
    hsrc = os.path.join(VERIF, 'harness', harness); rt = os.path.join(VERIF, 'support', 'native_rt.cpp')
    key = hashlib.sha256(('|'.join(objs) + hd + fhash(hsrc) + fhash(rt) + str(omp)).encode()).hexdigest()[:24]
    exe = os.path.join(CACHE, 'bin', harness[:-4] + '.' + key)
    if os.path.exists(exe): return exe
    os.makedirs(os.path.dirname(exe), exist_ok=True)
    inc = ['-I' + REPO + '/src', '-I' + REPO + '/misc_interfaces/stubs', '-I' + VERIF + '/support', '-I' + VERIF + '/harness']
    sh([CLANG] + NATIVE_FLAGS + inc + ['-fno-access-control'] + (['-fopenmp'] if omp else []) + [hsrc, rt] + objs + ['-o', exe + '.tmp%d' % os.getpid(), '-rdynamic', '-lm', '-ldl'])
    os.replace(exe + '.tmp%d' % os.getpid(), exe)
    return exe

if __name__ == '__main__':
    p, k, info = build_module(sys.argv[1:])
    print(k, json.dumps(info)[:300])
