# Session: build the IR for a set of harness files, create an interpreter with the standing stubs, run static
# constructors and set-up functions, explore harness functions.
import os, sys, time, json, threading
from . import build, rdom as R
from .irmod import Module
from .interp import Interp, Monitor, Unsupported, NULL
from . import stubs as ST, explore as EX

def _noop(I, a): return None
def cvm_log_stub(I, a):
    """cvm::log: delivery/formatting outside every claim; the text (with in-band tokens for symbolic numbers) is kept so that
    harnesses can read back a logged quantity"""
    try:
        p = a[0]; data = I.load(p, 8, 'ptr'); n = I.load((p[0], p[1] + 8), 8, 'i64')
        if isinstance(n, int) and n < 4096:
            bs = I.read_bytes(data, n)
            if all(isinstance(b, int) for b in bs):
                I.ext.setdefault('log', []).append(bytes(bs).decode('latin1'))
                if len(I.ext['log']) > 200: I.ext['log'].pop(0)
    except Exception: pass
    return None
def _zero(I, a): return 0

def cvm_error_stub(I, a):
    """cvm::error(std::string const &message, int code): set the error bits exactly like the library does, record the message
    (formatting and delivery of the text through proxy->error() are outside every claim), return get_error()"""
    try: msg = _std_string(I, a[0])
    except Exception: msg = '?'
    I.ext.setdefault('errors', []).append(msg)
    code = a[1] if len(a) > 1 else 1
    if not isinstance(code, int): code = 1
    code = code - (1 << 32) if code >> 31 else code
    if code < 0: code = 1
    p = I.gptr('_ZN12colvarmodule9errorCodeE')
    old = I.load(p, 4, 'i32')
    new = old | code | 1
    I.store(p, new, 4)
    return new

def _std_string(I, p):
    data = I.load(p, 8, 'ptr'); n = I.load((p[0], p[1] + 8), 8, 'i64')
    if not isinstance(n, int): return '<symbolic length>'
    n = min(n, 400)
    bs = I.read_bytes(data, n)
    return ''.join(chr(b) if isinstance(b, int) else '?' for b in bs)

STANDING_PREFIX = [
    ('_ZNSt8ios_base4Init', _noop),
    ('_ZN12colvarmodule3logE', cvm_log_stub),                # cvm::log: formatting of log text is outside every claim
    ('_ZN12colvarmodule5usage12cite_feature', _zero),
    ('_ZN12colvarmodule5usage13cite_paper', _zero),
    ('_ZN12colvarmodule5errorERKNSt7__cxx1112basic_string', cvm_error_stub),
]

class Session:
    def __init__(self, harness_files, omp=False, fmode='exact', stub_prefixes=(), quiet=False, keep_log=False, real_error=False, ext=None):
        t0 = time.time()
        self.paths, self.key, self.build_info = build.build_module(harness_files, omp=omp)
        self.mod = Module(self.paths)
        self.I = Interp(self.mod, fmode=fmode)
        I = self.I
        if ext: I.ext.update(ext)
        if I.ext.get('div_zero') == 'fork': I.enable_div_zero_fork()
        self._max_steps = I.ext.get('max_steps')
        I.stub_prefixes = list(stub_prefixes) + ([] if keep_log else STANDING_PREFIX)
        self.harness_files = list(harness_files); self.omp = omp
        self.t_build = time.time() - t0
        self.setup_steps = 0; self.t_setup = 0
        self.quiet = quiet
        t0 = time.time()
        for ent in self.mod.ctors:
            g = self.mod.read(ent)
            init = g.get('init')
            if not init or init[0] != 'cagg': continue
            for e in init[2:]:
                fn = e[4][1] if e[0] == 'cstruct' else e[3][1]
                I.run(fn, [])
        self.t_ctors = time.time() - t0
    def setup(self, fn):
        t0 = time.time(); s0 = self.I.steps
        self.I.run(fn, [])
        self.t_setup += time.time() - t0; self.setup_steps += self.I.steps - s0
    def explore(self, fn, **kw):
        if self._max_steps: self.I.max_steps = self._max_steps     # per-path budget (children start counting at 0)
        R.reset_keep = None
        paths, trunc = EX.explore(self.I, fn, **kw)
        return paths, EX.summarize(paths, trunc)

def in_big_thread(fn):
    """run fn in a thread with a large stack (deep Python recursion in the interpreter)"""
    sys.setrecursionlimit(200000); threading.stack_size(1024 * 1024 * 1024)
    box = {}
    def w():
        try: box['r'] = fn()
        except SystemExit as e: box['exit'] = e.code
        except BaseException as e:
            import traceback; traceback.print_exc(); box['exit'] = 2
    th = threading.Thread(target=w); th.start(); th.join()
    if 'exit' in box: raise SystemExit(box['exit'])
    return box.get('r')
