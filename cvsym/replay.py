# Native replay of solver models and differential (interpreter vs native) runs
import os, subprocess, tempfile, json, signal, shutil
from fractions import Fraction
from . import build

M64 = (1 << 64) - 1
def hash_name(name, seed):
    h = (1469598103934665603 ^ ((seed * 0x9E3779B97F4A7C15) & M64)) & M64
    for ch in name.encode('latin1'):
        h ^= ch; h = (h * 1099511628211) & M64
    h ^= h >> 29; h = (h * 0xBF58476D1CE4E5B9) & M64; h ^= h >> 32
    return h

class DefaultInputs(dict):
    """same default values as support/native_rt.cpp, for concrete runs inside the interpreter"""
    def __init__(self, seed, given=None):
        dict.__init__(self, given or {}); self.seed = seed; self.kinds = {}
    def __contains__(self, k): return True
    def __missing__(self, k):
        raise KeyError(k)
    def real(self, name):
        if dict.__contains__(self, name): return Fraction(str(dict.__getitem__(self, name)))
        return Fraction(hash_name(name, self.seed) % 257 - 128, 64) + Fraction(1, 128)
    def integer(self, name, lo, hi):
        if dict.__contains__(self, name): return int(dict.__getitem__(self, name))
        span = (hi - lo + 1) & M64
        if span == 0 or span > 16: span = 16
        return lo + hash_name(name, self.seed) % span
    def small(self, name, mod):
        if dict.__contains__(self, name): return int(dict.__getitem__(self, name))
        return hash_name(name, self.seed) % mod

def fmt_inputs(d):
    lines = []
    for k, v in d.items():
        if isinstance(v, str) and '/' in v: v = repr(float(Fraction(v)))
        elif isinstance(v, Fraction): v = repr(float(v))
        lines.append('%s %s' % (k, v))
    return '\n'.join(lines) + '\n'

def run_native(exe, fns, inputs=None, seed=1, perturb=None, derivs=None, timeout=120):
    env = dict(os.environ); env['VERIF_SEED'] = str(seed)
    env['ASAN_OPTIONS'] = 'detect_leaks=0:abort_on_error=0:exitcode=99'; env['UBSAN_OPTIONS'] = 'halt_on_error=1:exitcode=98:print_stacktrace=0'
    tmp = []
    wd = tempfile.mkdtemp(prefix='verif_native_')     # files written by the harness (trajectory, state) land in a scratch directory
    try:
        ipath = '-'
        if inputs:
            f = tempfile.NamedTemporaryFile('w', suffix='.in', delete=False); f.write(fmt_inputs(inputs)); f.close(); ipath = f.name; tmp.append(f.name)
        if perturb: env['VERIF_PERTURB'] = '%s:%r' % perturb
        if derivs:
            f = tempfile.NamedTemporaryFile('w', suffix='.der', delete=False); f.write(''.join('%s %r\n' % kv for kv in derivs.items())); f.close(); env['VERIF_DERIVS'] = f.name; tmp.append(f.name)
        try:
            r = subprocess.run([os.path.abspath(exe), ipath] + list(fns), stdout=subprocess.PIPE, stderr=subprocess.PIPE, env=env, timeout=timeout, cwd=wd)
            rc = r.returncode; out = r.stdout.decode(errors='replace'); err = r.stderr.decode(errors='replace')
        except subprocess.TimeoutExpired as ex:
            rc = -999; out = (ex.stdout or b'').decode(errors='replace'); err = 'TIMEOUT'
    finally:
        for t in tmp:
            try: os.unlink(t)
            except OSError: pass
        shutil.rmtree(wd, ignore_errors=True)
    res = {'rc': rc, 'asserts': {}, 'outs': {}, 'derivs': [], 'sites': [], 'reach': [], 'stderr': err[-1500:], 'crash': None, 'assume_false': 'ASSUME-FALSE' in out}
    for line in out.splitlines():
        p = line.split(' ')
        if p[0] == 'ASSERT':
            lab = p[1]; ok = p[2] == 'ok'
            res['asserts'][lab] = res['asserts'].get(lab, True) and ok
        elif p[0] == 'OUT':
            try: res['outs'][p[1]] = float(p[2])
            except ValueError: res['outs'][p[1]] = p[2]
        elif p[0] == 'OUTS': res['outs'][p[1]] = ' '.join(p[2:])
        elif p[0] == 'DERIV': res['derivs'].append((p[1], p[2], float(p[3]), float(p[4])))
        elif p[0] == 'DERIVSITE': res['sites'].append((int(p[1]), p[2], float(p[3])))
        elif p[0] == 'REACH': res['reach'].append(p[1])
    if rc < 0 and rc != -999: res['crash'] = 'signal %d' % (-rc)
    elif rc == 99: res['crash'] = 'AddressSanitizer report'
    elif rc == 98: res['crash'] = 'UndefinedBehaviorSanitizer report'
    elif rc == -999: res['crash'] = 'timeout (hang)'
    elif rc == 134: res['crash'] = 'abort'
    return res

def replay(harness_file, fns, inputs, seed=1, omp=False, timeout=120):
    """full native replay including finite-difference evaluation of derivative obligations.
    returns dict with 'failed' = set of labels that fail natively, 'crash'"""
    exe = build.native_harness(harness_file, omp)
    base = run_native(exe, fns, inputs, seed, timeout=timeout)
    failed = set(l for l, ok in base['asserts'].items() if not ok)
    info = {'rc': base['rc'], 'crash': base['crash'], 'stderr': base['stderr'][-600:], 'outs': base['outs']}
    vars_ = sorted(set(v for (_, v, _, _) in base['derivs']) | set(v for (_, v, _) in base['sites']))
    if vars_ and not base['crash']:
        h = 1e-5; fd = {}; sd = {}
        for v in vars_:
            plus = run_native(exe, fns, inputs, seed, perturb=(v, h)); minus = run_native(exe, fns, inputs, seed, perturb=(v, -h))
            dp = {(l, vv): f for (l, vv, f, e) in plus['derivs']}; dm = {(l, vv): f for (l, vv, f, e) in minus['derivs']}
            for (l, vv, f, e) in base['derivs']:
                if vv == v and (l, v) in dp and (l, v) in dm: fd[(l, v)] = ((dp[(l, v)] - dm[(l, v)]) / (2 * h), e)
            sp = {(i, vv): f for (i, vv, f) in plus['sites']}; sm = {(i, vv): f for (i, vv, f) in minus['sites']}
            for (i, vv, f) in base['sites']:
                if vv == v and (i, v) in sp and (i, v) in sm: sd['%d:%s' % (i, v)] = (sp[(i, v)] - sm[(i, v)]) / (2 * h)
        for (l, v), (num, exp) in fd.items():
            if abs(num - exp) > 1e-4 * max(1.0, abs(num), abs(exp)): failed.add(l)
        info['finite_differences'] = {'%s/%s' % k: v for k, v in list(fd.items())[:20]}
        if sd:
            again = run_native(exe, fns, inputs, seed, derivs=sd)
            failed = set(l for l, ok in again['asserts'].items() if not ok) | set(l for (l, v), (num, exp) in fd.items() if abs(num - exp) > 1e-4 * max(1.0, abs(num), abs(exp)))
            info['crash'] = again['crash']; info['outs'] = again['outs']
    info['failed'] = sorted(failed)
    return info
