# cvsym: symbolic interpreter for the LLVM IR of Colvars (see DESIGN.md section 3)
import struct, math, time, sys
from fractions import Fraction
import z3
from . import rdom as R
from .irmod import split_agg, size_align, agg_layout
RV = R.RV

class Monitor(Exception):
    """safety monitor hit: the execution would crash / corrupt memory / throw"""
    def __init__(self, kind, msg): Exception.__init__(self, kind + ': ' + msg); self.kind = kind; self.msg = msg
class Unsupported(Exception): pass
class Vacuous(Exception): pass          # assumption infeasible on this path
class BoundExceeded(Exception): pass
class PathEnd(Exception): pass           # harness asked to stop this path (verif_stop)

class SV:
    """symbolic integer / boolean: wraps a z3 BitVec, Int or Bool term"""
    __slots__ = ('e',)
    def __init__(self, e): self.e = e
    def __bool__(self): raise TypeError('truth value of a symbolic integer')
    def __eq__(self, o): raise TypeError('== on a symbolic integer')
    def __hash__(self): return id(self)
    def __repr__(self): return 'SV(%s)' % str(self.e)[:80]
class FB:
    """a double whose bit pattern is a symbolic 64-bit vector (copied, never computed with)"""
    __slots__ = ('e',)
    def __init__(self, e): self.e = e
    def __bool__(self): raise TypeError('truth value of symbolic bits')

class Obj:
    __slots__ = ('size', 'cells', 'name', 'freed', 'kind')
    def __init__(self, size, name='', kind='heap'):
        self.size = size; self.cells = {}; self.name = name; self.freed = False; self.kind = kind

NULL = (0, 0)
INF = float('inf')

def mask(v, bits): return v & ((1 << bits) - 1)
def sext(v, bits):
    v &= (1 << bits) - 1
    return v - (1 << bits) if v >> (bits - 1) else v
def tybits(ty):
    if ty[0] == 'i': return int(ty[1:])
    if ty == 'f64' or ty == 'ptr': return 64
    if ty == 'f32': return 32
    raise Unsupported('tybits ' + ty)
def f2bits(v): return struct.unpack('<Q', struct.pack('<d', float(v)))[0]
def bits2f(v): return struct.unpack('<d', struct.pack('<Q', v))[0]
def isnan(x): return isinstance(x, float) and x != x
def isptr(x): return isinstance(x, tuple)

def to_bv(x, bits):
    if isinstance(x, SV): x = x.e
    if z3.is_expr(x):
        if z3.is_bv(x):
            if x.size() == bits: return x
            return z3.Extract(bits - 1, 0, x) if x.size() > bits else z3.ZeroExt(bits - x.size(), x)
        if z3.is_bool(x): return z3.If(x, z3.BitVecVal(1, bits), z3.BitVecVal(0, bits))
        if z3.is_int(x): return z3.Int2BV(x, bits)
        raise Unsupported('to_bv of ' + str(x.sort()))
    if isinstance(x, tuple): raise Unsupported('pointer in symbolic integer arithmetic')
    return z3.BitVecVal(x, bits)
def to_int(x, bits, signed=True):
    if isinstance(x, SV): x = x.e
    if z3.is_expr(x):
        if z3.is_int(x): return x
        if z3.is_bool(x): return z3.If(x, z3.IntVal(1), z3.IntVal(0))
        if z3.is_bv(x): return z3.BV2Int(x, signed)
        raise Unsupported('to_int of ' + str(x.sort()))
    if isinstance(x, tuple): raise Unsupported('pointer in symbolic integer arithmetic')
    return z3.IntVal(sext(x, bits) if signed else x)
def to_bool(x):
    if isinstance(x, SV): x = x.e
    if z3.is_expr(x):
        if z3.is_bool(x): return x
        if z3.is_bv(x): return x != 0
        if z3.is_int(x): return x != 0
    return z3.BoolVal(bool(x & 1))
def sv(e):
    e = z3.simplify(e)
    if z3.is_bv_value(e): return e.as_long()
    if z3.is_int_value(e): return e.as_long()      # caller masks
    if z3.is_true(e): return 1
    if z3.is_false(e): return 0
    return SV(e)
def is_intmode(*xs):
    for x in xs:
        if isinstance(x, SV) and z3.is_int(x.e): return True
    return False

# ------------------------------------------------------------------ decoding
(O_LOAD, O_STORE, O_GEP, O_CAST, O_CALL, O_BR, O_CBR, O_RET, O_ALLOCA, O_ICMP, O_FCMP, O_BIN, O_FBIN, O_FNEG, O_CONV, O_SELECT,
 O_SWITCH, O_EXTRACT, O_INSERT, O_RMW, O_CMPXCHG, O_FENCE, O_UNREACH, O_LPAD, O_RESUME, O_FREEZE, O_XELEM, O_IELEM, O_SHUF) = range(29)
BINOPS = {'add', 'sub', 'mul', 'and', 'or', 'xor', 'shl', 'lshr', 'ashr', 'udiv', 'urem', 'sdiv', 'srem'}
FBINOPS = {'fadd', 'fsub', 'fmul', 'fdiv', 'frem'}
CONVOPS = {'zext', 'trunc', 'sext', 'ptrtoint', 'inttoptr', 'sitofp', 'uitofp', 'fptosi', 'fptoui', 'fpext', 'fptrunc'}

class Func:
    __slots__ = ('name', 'args', 'nvals', 'blocks', 'entry', 'vararg')

class Frame:
    __slots__ = ('f', 'vals', 'allocas')

class Interp:
    def __init__(self, mod, fmode='exact'):
        self.m = mod; self.fmode = fmode
        self.objs = {0: Obj(0, 'null')}; self.next_obj = 1; self.base = {}; self.next_addr = 0x10000
        self.gaddr = {}; self.steps = 0; self.max_steps = 400_000_000
        self.outs = {}; self.out_order = []
        self.stubs = {}; self.stub_prefixes = []; self.stub_used = set(); self.called = set()
        self.fdec = {}
        self.stack = []
        # symbolic state
        self.pc = []; self.solver = None; self.decisions = []; self.dpos = 0; self.models = []
        self.nq = 0; self.tq = 0.0; self.qtimeout = 2000
        self.results = []       # assertion / witness results
        self.syms = {}          # name -> (kind, z3 var)
        self.choices = {}       # name -> value (verif_choice)
        self.notes = []
        self.loop_bound = None
        self.logging = False; self.log = []; self.tid = 0; self.nthreads = 1; self.atomic = False; self.locks = set()
        self.inputs = None      # concrete input dict (concrete replay inside the interpreter)
        self.fs = None          # file-system model
        self.max_alloc = 1 << 28
        self.ext = {}           # extension state used by stubs
        self.assumed_nonzero = 0
        self.fork_sites = [] if __import__('os').environ.get('VERIF_FORK_SITES') else None
        R.ST.context = lambda: list(self.pc)
        self._zd_seen = {}
    def enable_div_zero_fork(self):
        def hook(b):
            e = z3.simplify(R.cmp(b, 0, 'eq'))
            if z3.is_false(e): return False
            if z3.is_true(e): return True
            return self.decide(e)
        R.ST.zero_div = hook
    # ------------------------------------------------------------ solver
    def _solver(self):
        if self.solver is None:
            self.solver = z3.Solver(); self.solver.set('timeout', self.qtimeout)
            self._ngen = 0; self._nax = 0; self._nden = 0; self._npc = 0
        s = self.solver
        # lazily add new path-condition conjuncts, generator definitions and non-zero denominators
        while self._npc < len(self.pc): s.add(self.pc[self._npc]); self._npc += 1
        # generator definitions, axioms and non-zero denominators are growing lists: each has its own cursor; pooled models that do not
        # satisfy a newly added constraint (they predate the symbol and complete it with 0) are dropped
        added = []
        gl = list(R.ST.gens.values())
        while self._ngen < len(gl):
            v, P = gl[self._ngen]; added.append(z3.And(v * v == P, v >= 0)); self._ngen += 1
        ax = R.ST.axioms
        while self._nax < len(ax): added.append(ax[self._nax]); self._nax += 1
        dc = R.ST.denoms
        while self._nden < len(dc): added.append(dc[self._nden] != 0); self._nden += 1
        for c in added:
            s.add(c)
            if self.models:
                keep = []
                for m in self.models:
                    try:
                        if z3.is_true(m.eval(c, model_completion=True)): keep.append(m)
                    except z3.Z3Exception: pass
                self.models = keep
        return s
    def all_constraints(self):
        return list(self.pc) + R.gen_constraints() + R.denom_constraints()
    def check(self, cond, timeout=None):
        """sat / unsat / unknown of pc /\\ cond"""
        s = self._solver()
        if timeout is not None: s.set('timeout', timeout)
        t0 = time.time(); s.push(); s.add(cond); r = s.check()
        if r == z3.sat:
            try: self.models.append(s.model())
            except z3.Z3Exception: pass
            if len(self.models) > 6: self.models.pop(0)
        s.pop(); self.nq += 1; self.tq += time.time() - t0
        if timeout is not None: s.set('timeout', self.qtimeout)
        if r == z3.unknown:
            # the incremental core gives up on non-linear real arithmetic more readily than the one-shot tactic: retry from scratch
            r = self.fresh_check(cond, timeout)
        return r
    def fresh_check(self, cond=None, timeout=None):
        fs = z3.Solver(); fs.set('timeout', timeout or self.qtimeout); fs.add(self.all_constraints())
        if cond is not None: fs.add(cond)
        t0 = time.time(); r = fs.check(); self.nq += 1; self.tq += time.time() - t0
        if r == z3.sat:
            try: self.models.append(fs.model())
            except z3.Z3Exception: pass
            if len(self.models) > 6: self.models.pop(0)
        return r
    def _model_says(self, cond):
        if self.models: self._solver()      # brings the pool up to date with constraints that came with new symbols
        for m in self.models:
            try:
                if z3.is_true(m.eval(cond, model_completion=True)): return True
            except z3.Z3Exception: pass
        return False
    def add_pc(self, cond):
        self.pc.append(cond)
        keep = []
        for m in self.models:
            try:
                if z3.is_true(m.eval(cond, model_completion=True)): keep.append(m)
            except z3.Z3Exception: pass
        self.models = keep
    def feasible(self, cond):
        if self._model_says(cond): return True
        return self.check(cond) != z3.unsat
    def monitor_if(self, cond, kind, msg):
        """raise the monitor when cond is satisfiable on this path; cond joins the path condition so that the reported model exhibits it"""
        if not self._model_says(cond):
            r = self.check(cond)
            if r == z3.unknown: r = self.check(cond, timeout=4 * self.qtimeout)
            if r == z3.unsat: return
        self.add_pc(cond)
        raise Monitor(kind, msg)
    def decide(self, cond):
        """branch on a symbolic condition: returns True/False, extending the path condition"""
        c = z3.simplify(cond)
        if z3.is_true(c): return True
        if z3.is_false(c): return False
        nc = z3.Not(c)
        ft = self.feasible(c); ff = self.feasible(nc)
        if ft and not ff: self.add_pc(c); return True
        if ff and not ft: self.add_pc(nc); return False
        if not ft and not ff: raise Vacuous('path condition became unsatisfiable')
        if self.dpos < len(self.decisions): d = self.decisions[self.dpos]
        else: d = True; self.decisions.append(True)
        self.dpos += 1
        if self.fork_sites is not None: self.fork_sites.append((self.stack[-1] if self.stack else '?')[:60])
        self.add_pc(c if d else nc)
        return d
    def concretize(self, x, what='index'):
        """fork over the feasible values of a symbolic integer (small domains only)"""
        e = x.e if isinstance(x, SV) else x
        tried = 0
        while True:
            r = None
            for m in self.models:
                try:
                    v = m.eval(e, model_completion=True)
                    if z3.is_int_value(v) or z3.is_bv_value(v): r = v.as_long(); break
                except z3.Z3Exception: pass
            if r is None:
                s = self._solver(); t0 = time.time(); st = s.check(); self.nq += 1; self.tq += time.time() - t0
                if st == z3.unsat: raise Vacuous('no value left for ' + what)
                if st != z3.sat:
                    st = self.fresh_check()
                    if st == z3.unsat: raise Vacuous('no value left for ' + what)
                    if st != z3.sat: raise Unsupported('solver gave up while enumerating values of a symbolic ' + what)
                    m = self.models[-1]
                else:
                    m = s.model(); self.models.append(m)
                r = m.eval(e, model_completion=True).as_long()
            if self.decide(e == r): return r
            tried += 1
            if tried > 300: raise BoundExceeded('more than 300 values for a symbolic ' + what)
    # ------------------------------------------------------------ memory
    def alloc(self, size, name='', kind='heap'):
        o = Obj(size, name, kind); i = self.next_obj; self.next_obj += 1; self.objs[i] = o
        self.base[i] = self.next_addr; self.next_addr += (size + 64 + 15) // 16 * 16
        return (i, 0)
    def addr(self, p):
        if p[0] == 'int': return p[1]
        if p[0] == 'fn': return (1 << 40) + (hash(p[1]) & 0xffffff) * 16
        if p[0] == 0: return p[1]
        return self.base[p[0]] + p[1]
    def gptr(self, name):
        p = self.gaddr.get(name)
        if p is not None: return p
        m = self.m
        if name in m.funcs or name in m.decls:
            p = ('fn', name); self.gaddr[name] = p; return p
        if name in m.globals:
            g = m.read(m.globals[name])
            p = self.alloc(g['size'], name, 'global'); self.gaddr[name] = p
            if 'init' in g: self.store_const(p, g['init'])
            return p
        if name in m.aliases:
            a = m.read(m.aliases[name]); p = self.const(a['target']); self.gaddr[name] = p; return p
        raise Unsupported('unknown global ' + name)
    def const_size(self, c):
        k = c[0]
        if k == 'ci': return max(1, (c[1] + 7) // 8)
        if k == 'cf': return 8 if c[1] == 'f64' else 4
        if k in ('zero', 'undef', 'cagg', 'cstruct'): return size_align(c[1])[0]
        if k == 'ce': return size_align(c[2])[0]
        return 8
    def store_const(self, p, c):
        k = c[0]
        if k == 'zero' or k == 'undef': return
        if k == 'cstruct':
            for off, e in zip(c[2], c[3:]): self.store_const((p[0], p[1] + off), e)
            return
        if k == 'cagg':
            ety = split_agg(c[1])[0]; es = size_align(ety)[0]
            elems = c[2:]
            if ety == 'i8' and all(e[0] == 'ci' for e in elems):
                o = self.objs[p[0]]
                for i, e in enumerate(elems):
                    v = int(e[2])
                    if v: o.cells[p[1] + i] = (1, v)
                return
            for i, e in enumerate(elems): self.store_const((p[0], p[1] + i * es), e)
            return
        v = self.const(c)
        self.store(p, v, self.const_size(c))
    def _bad(self, p, what, size):
        if p[0] == 0 or p[0] == 'int': raise Monitor('null-deref', '%s of %d bytes at address %d' % (what, size, p[1]))
        raise Monitor('bad-pointer', '%s through %r' % (what, p))
    def load(self, p, size, ty):
        if not isinstance(p[0], int) or p[0] == 0: self._bad(p, 'load', size)
        o = self.objs[p[0]]; off = p[1]
        if off < 0 or off + size > o.size: raise Monitor('out-of-bounds', 'load of %d bytes at offset %d of %s (size %d)' % (size, off, o.name, o.size))
        if o.freed: raise Monitor('use-after-free', 'load from freed %s' % o.name)
        if self.logging: self.log.append((p[0], off, size, 'r', self.tid, self.atomic or bool(self.locks)))
        c = o.cells.get(off)
        if c is not None and c[0] == size: return self.conv_loaded(c[1], ty)
        bs = [self.load_byte(o, off + i) for i in range(size)]
        if any(not isinstance(b, int) for b in bs):
            e = z3.Concat(*[to_bv(b, 8) for b in reversed(bs)]) if size > 1 else to_bv(bs[0], 8)
            e = z3.simplify(e)
            if ty == 'f64': return FB(e)
            if ty == 'ptr': raise Unsupported('pointer assembled from symbolic bytes')
            return sv(e)
        v = int.from_bytes(bytes(bs), 'little')
        if ty == 'f64': return self.mkfloat(bits2f(v))
        if ty == 'f32': return struct.unpack('<f', struct.pack('<I', v))[0]
        if ty == 'ptr':
            if v == 0: return NULL
            return ('int', v)
        return v
    def mkfloat(self, fv):
        if self.fmode == 'exact' and fv == fv and fv not in (INF, -INF): return Fraction(fv)
        return fv
    def load_byte(self, o, off):
        cells = o.cells
        c = cells.get(off)
        if c is not None and c[0] == 1:
            v = c[1]
            if isinstance(v, int): return v & 255
            if isinstance(v, SV): return v
        for back in range(0, 16):
            c = cells.get(off - back)
            if c is not None:
                if c[0] > back:
                    v = c[1]
                    if isinstance(v, (float, Fraction)): v = f2bits(v)
                    if isinstance(v, tuple):
                        if v == NULL: return 0
                        if v[0] == 'int': return (v[1] >> (8 * back)) & 255
                        raise Unsupported('byte access to a pointer value')
                    if isinstance(v, int): return (v >> (8 * back)) & 255
                    if isinstance(v, (SV, FB)) and z3.is_bv(v.e): return sv(z3.Extract(8 * back + 7, 8 * back, v.e))
                    if isinstance(v, SV) and z3.is_bool(v.e): return v if back == 0 else 0
                    raise Unsupported('byte access to a symbolic %s' % type(v).__name__)
                break
        return 0
    def conv_loaded(self, v, ty):
        if ty == 'f64':
            if isinstance(v, int): return self.mkfloat(bits2f(v))
            if isinstance(v, SV): return FB(to_bv(v, 64))
            return v
        if ty == 'ptr':
            if isinstance(v, int): return NULL if v == 0 else ('int', v)
            return v
        if ty[0] == 'i':
            if isinstance(v, (float, Fraction)): return f2bits(v)
            if isinstance(v, tuple): return 0 if v == NULL else v
            if isinstance(v, FB): return SV(v.e)
            if isinstance(v, RV):
                if ty == 'i64': return v      # a real moved through an integer register (memcpy lowered to load/store i64)
                raise Unsupported('integer view of a symbolic real')
            return v
        return v
    def store(self, p, v, size):
        if not isinstance(p[0], int) or p[0] == 0: self._bad(p, 'store', size)
        o = self.objs[p[0]]; off = p[1]
        if off < 0 or off + size > o.size: raise Monitor('out-of-bounds', 'store of %d bytes at offset %d of %s (size %d)' % (size, off, o.name, o.size))
        if o.freed: raise Monitor('use-after-free', 'store to freed %s' % o.name)
        if self.logging: self.log.append((p[0], off, size, 'w', self.tid, self.atomic or bool(self.locks)))
        cells = o.cells
        c = cells.get(off)
        if c is not None and c[0] == size:
            cells[off] = (size, v); return
        for back in range(1, 16):
            c = cells.get(off - back)
            if c is not None:
                if c[0] > back: self.split(o, off - back)
                break
        for i in range(size):
            c = cells.get(off + i)
            if c is not None:
                if i + c[0] > size:
                    try: self.split(o, off + i)
                    except Unsupported as ex: raise Unsupported(str(ex) + ' by a store of %d bytes at %d: %r' % (size, off, v))
                cells.pop(off + i, None)
        cells[off] = (size, v)
    def split(self, o, off):
        c = o.cells.pop(off); v = c[1]
        if isinstance(v, (float, Fraction)): v = f2bits(v)
        if isinstance(v, tuple):
            if v == NULL: v = 0
            elif v[0] == 'int': v = v[1]
            else: v = self.addr(v)     # the remaining bytes keep the numeric address (provenance is lost, as on the machine)
        if isinstance(v, (SV, FB)):
            if not z3.is_bv(v.e): raise Unsupported('partial overwrite of a symbolic non-bitvector')
            for i in range(c[0]): o.cells[off + i] = (1, sv(z3.Extract(8 * i + 7, 8 * i, v.e)))
            return
        if not isinstance(v, int): raise Unsupported('partial overwrite of a symbolic real')
        for i in range(c[0]): o.cells[off + i] = (1, (v >> (8 * i)) & 255)
    def memcpy(self, d, s, n):
        if n == 0: return
        if not isinstance(s[0], int) or s[0] == 0: self._bad(s, 'memcpy source', n)
        if not isinstance(d[0], int) or d[0] == 0: self._bad(d, 'memcpy destination', n)
        so = self.objs[s[0]]
        if s[1] < 0 or s[1] + n > so.size: raise Monitor('out-of-bounds', 'memcpy source %d bytes at offset %d of %s (size %d)' % (n, s[1], so.name, so.size))
        if so.freed: raise Monitor('use-after-free', 'memcpy from freed ' + so.name)
        do = self.objs[d[0]]
        if d[1] < 0 or d[1] + n > do.size: raise Monitor('out-of-bounds', 'memcpy destination %d bytes at offset %d of %s (size %d)' % (n, d[1], do.name, do.size))
        if self.logging: self.log.append((s[0], s[1], n, 'r', self.tid, self.atomic or bool(self.locks)))
        items = []; i = 0; cells = so.cells; base = s[1]
        while i < n:
            c = cells.get(base + i)
            if c is not None and i + c[0] <= n:
                items.append((i, c[0], c[1])); i += c[0]
            else:
                items.append((i, 1, self.load_byte(so, base + i))); i += 1
        lg = self.logging
        if lg: self.log.append((d[0], d[1], n, 'w', self.tid, self.atomic or bool(self.locks)))
        self.logging = False
        for (i, sz, v) in items: self.store((d[0], d[1] + i), v, sz)
        self.logging = lg
    def cstr(self, p, maxlen=1 << 20):
        if not isinstance(p[0], int) or p[0] == 0: self._bad(p, 'string read', 1)
        o = self.objs[p[0]]; out = bytearray(); off = p[1]
        while True:
            if off >= o.size: raise Monitor('out-of-bounds', 'unterminated C string in %s' % o.name)
            b = self.load_byte(o, off)
            if not isinstance(b, int): raise Unsupported('symbolic byte in a C string needed concretely')
            if b == 0: break
            out.append(b); off += 1
            if len(out) > maxlen: break
        return out.decode('latin1')
    def read_bytes(self, p, n):
        o = self.objs[p[0]]
        if p[1] < 0 or p[1] + n > o.size: raise Monitor('out-of-bounds', 'read of %d bytes at offset %d of %s (size %d)' % (n, p[1], o.name, o.size))
        return [self.load_byte(o, p[1] + i) for i in range(n)]
    def write_bytes(self, p, bs):
        for i, b in enumerate(bs): self.store((p[0], p[1] + i), b, 1)
    def new_cstr(self, s, name='str'):
        b = s.encode('latin1') + b'\0'; p = self.alloc(len(b), name)
        o = self.objs[p[0]]
        for i, ch in enumerate(b):
            if ch: o.cells[i] = (1, ch)
        return p
    # ------------------------------------------------------------ constants
    def const(self, c):
        k = c[0]
        if k == 'ci': return int(c[2])
        if k == 'cf':
            if c[1] == 'f64':
                b = int(c[2])
                if False and self.ext.get('pi_symbol') and self.fmode == 'exact':
                    # exact-real reading: the literals PI and PI_2 denote pi and pi/2
                    if b == 0x400921FB54442D18: return RV.term(R.PI)
                    if b == 0x3FF921FB54442D18: return RV.term(R.PI / 2)
                    if b == 0x401921FB54442D18: return RV.term(R.PI * 2)
                return self.mkfloat(bits2f(b))
            if c[1] == 'f32': return struct.unpack('<f', struct.pack('<I', int(c[2])))[0]
            raise Unsupported('constant of type ' + c[1])
        if k == 'null': return NULL
        if k == 'undef' or k == 'zero':
            ty = c[1]
            if ty[0] in '{[<': return [self.const(['zero', t]) for t in split_agg(ty)]
            return self.mkfloat(0.0) if ty == 'f64' else (NULL if ty == 'ptr' else 0)
        if k == 'g': return self.gptr(c[1])
        if k == 'cegep':
            b = self.const(c[1])
            if b[0] == 'fn': raise Unsupported('gep on function')
            if c[3]: raise Unsupported('variable constant gep')
            return (b[0], b[1] + c[2])
        if k == 'ce':
            op = c[1]
            if op in ('bitcast', 'addrspacecast', 'ptrtoint'): return self.const(c[3])
            if op == 'inttoptr':
                v = self.const(c[3]); return NULL if v == 0 else (v if isinstance(v, tuple) else ('int', v))
            if op in ('sub', 'add'):
                a = self.const(c[3]); b = self.const(c[4])
                if isinstance(a, tuple) and isinstance(b, tuple) and a[0] == b[0]: return mask(a[1] - b[1], 64) if op == 'sub' else None
                if isinstance(a, tuple) or isinstance(b, tuple):
                    ia = self.addr(a) if isinstance(a, tuple) else a; ib = self.addr(b) if isinstance(b, tuple) else b
                    return mask(ia - ib if op == 'sub' else ia + ib, 64)
                return mask(a - b if op == 'sub' else a + b, 64)
            if op == 'icmp':
                a = self.const(c[4]); b = self.const(c[5])
                return 1 if ((a == b) == (c[3] == 'eq')) else 0
            raise Unsupported('constant expression ' + op)
        if k == 'cagg': return [self.const(e) for e in c[2:]]
        if k == 'cstruct': return [self.const(e) for e in c[3:]]
        raise Unsupported('constant kind ' + k)
    # ------------------------------------------------------------ function decoding
    def func(self, name):
        f = self.fdec.get(name)
        if f is None:
            f = self.decode(self.m.read(self.m.funcs[name])); self.fdec[name] = f
        return f
    def opnd(self, o):
        if o[0] == 'v': return (True, o[1])
        if o[0] == 'bb': return (False, o[1])
        if o[0] in ('md', 'asm', 'unk', 'blockaddr'): return (False, None)
        return (False, self.const(o))
    def decode(self, j):
        f = Func(); f.name = j['name']; f.args = [a[0] for a in j['args']]; f.nvals = j['nvals']; f.vararg = j.get('vararg', 0)
        f.blocks = {}
        op = self.opnd
        for b in j['blocks']:
            phis = []; insts = []
            for ins in b['insts']:
                o = ins['op']; ty = ins['ty']; d = ins.get('id', -1)
                if o == 'phi':
                    phis.append((d, {bb: op(v) for (v, bb) in ins['inc']}))
                elif o == 'load':
                    insts.append((O_LOAD, d, op(ins['ptr']), ins['sz'], ty))
                elif o == 'store':
                    insts.append((O_STORE, op(ins['val']), op(ins['ptr']), ins['sz'], ins['vty']))
                elif o == 'getelementptr':
                    insts.append((O_GEP, d, op(ins['base']), ins['off'][0], [(op(x), sc) for (x, sc) in ins['off'][1]]))
                elif o == 'bitcast' or o == 'addrspacecast':
                    insts.append((O_CAST, d, op(ins['ops'][0]), ty, ins['oty']))
                elif o == 'call' or o == 'invoke':
                    insts.append((O_CALL, d, op(ins['callee']), [op(a[0]) for a in ins['args']], ins.get('normal'), ty))
                elif o == 'br':
                    ops = ins['ops']
                    if len(ops) == 1: insts.append((O_BR, ops[0][1]))
                    else: insts.append((O_CBR, op(ops[0]), ops[2][1], ops[1][1]))
                elif o == 'ret':
                    insts.append((O_RET, op(ins['ops'][0]) if ins['ops'] else None))
                elif o == 'alloca':
                    insts.append((O_ALLOCA, d, ins['size'], op(ins['n'])))
                elif o == 'icmp':
                    insts.append((O_ICMP, d, ins['pred'], op(ins['a']), op(ins['b']), ins['oty']))
                elif o == 'fcmp':
                    insts.append((O_FCMP, d, ins['pred'], op(ins['a']), op(ins['b'])))
                elif o in BINOPS:
                    insts.append((O_BIN, d, o, op(ins['ops'][0]), op(ins['ops'][1]), tybits(ty) if ty[0] == 'i' else 0, ty))
                elif o in FBINOPS:
                    insts.append((O_FBIN, d, o, op(ins['ops'][0]), op(ins['ops'][1]), ty))
                elif o == 'fneg':
                    insts.append((O_FNEG, d, op(ins['ops'][0])))
                elif o in CONVOPS:
                    insts.append((O_CONV, d, o, op(ins['ops'][0]), ty, ins['oty']))
                elif o == 'select':
                    insts.append((O_SELECT, d, op(ins['ops'][0]), op(ins['ops'][1]), op(ins['ops'][2]), ty))
                elif o == 'switch':
                    insts.append((O_SWITCH, op(ins['cond']), ins['default'], [(self.const(cv), bb) for (cv, bb) in ins['cases']]))
                elif o == 'extractvalue':
                    insts.append((O_EXTRACT, d, op(ins['agg']), ins['idx']))
                elif o == 'insertvalue':
                    insts.append((O_INSERT, d, op(ins['agg']), op(ins['val']), ins['idx']))
                elif o == 'atomicrmw':
                    insts.append((O_RMW, d, ins['rmw'], op(ins['ptr']), op(ins['val']), ins['sz'], ty))
                elif o == 'cmpxchg':
                    insts.append((O_CMPXCHG, d, op(ins['ptr']), op(ins['cmp']), op(ins['new']), ins['sz'], ins['vty']))
                elif o == 'fence': pass
                elif o == 'unreachable': insts.append((O_UNREACH,))
                elif o == 'landingpad': insts.append((O_LPAD, d))
                elif o == 'resume': insts.append((O_RESUME,))
                elif o == 'freeze': insts.append((O_FREEZE, d, op(ins['ops'][0])))
                elif o == 'extractelement': insts.append((O_XELEM, d, op(ins['ops'][0]), op(ins['ops'][1])))
                elif o == 'insertelement': insts.append((O_IELEM, d, op(ins['ops'][0]), op(ins['ops'][1]), op(ins['ops'][2])))
                else:
                    insts.append((-1, o))
            f.blocks[b['id']] = (phis, insts)
        f.entry = j['blocks'][0]['id']
        return f
    # ------------------------------------------------------------ calls
    def call(self, name, args):
        f = self.func(name)
        return self.exec_func(f, args)
    def run(self, name, args=()):
        return self.call(name, list(args))
    def exec_func(self, f, args):
        vals = [None] * f.nvals
        for a, v in zip(f.args, args): vals[a] = v
        if f.vararg: vals_va = args[len(f.args):]
        else: vals_va = None
        allocas = []
        blocks = f.blocks; bbid = f.entry; prev = None
        self.called.add(f.name)
        steps = 0
        try:
            while True:
                phis, insts = blocks[bbid]
                if phis:
                    if len(phis) == 1:
                        d, inc = phis[0]; o = inc[prev]; vals[d] = vals[o[1]] if o[0] else o[1]
                    else:
                        tmp = []
                        for d, inc in phis:
                            o = inc[prev]; tmp.append((d, vals[o[1]] if o[0] else o[1]))
                        for d, v in tmp: vals[d] = v
                steps += len(insts)
                for ins in insts:
                    k = ins[0]
                    if k == O_LOAD:
                        o = ins[2]; p = vals[o[1]] if o[0] else o[1]; ty = ins[4]
                        if ty[0] in '{[<': vals[ins[1]] = self.load_agg(p, ty)
                        else:
                            # fast path
                            if p[0].__class__ is int and p[0] != 0:
                                ob = self.objs[p[0]]; c = ob.cells.get(p[1])
                                if c is not None and c[0] == ins[3] and not self.logging and not ob.freed and p[1] >= 0 and p[1] + ins[3] <= ob.size:
                                    v = c[1]
                                    if ty == 'f64':
                                        if v.__class__ is int: v = self.mkfloat(bits2f(v))
                                        elif v.__class__ is SV: v = FB(to_bv(v, 64))
                                    elif ty == 'ptr':
                                        if v.__class__ is int: v = NULL if v == 0 else ('int', v)
                                    else:
                                        if v.__class__ is not int: v = self.conv_loaded(v, ty)
                                    vals[ins[1]] = v; continue
                            vals[ins[1]] = self.load(p, ins[3], ty)
                    elif k == O_GEP:
                        o = ins[2]; b = vals[o[1]] if o[0] else o[1]; off = ins[3]
                        for (x, sc) in ins[4]:
                            xv = vals[x[1]] if x[0] else x[1]
                            if xv.__class__ is not int:
                                if isinstance(xv, SV): xv = self.concretize(xv, 'array index')
                                elif isinstance(xv, tuple): xv = self.addr(xv)
                                else: raise Unsupported('gep index %r' % (xv,))
                            if xv >> 63: xv -= 1 << 64
                            off += xv * sc
                        if b[0] == 'fn': raise Unsupported('gep on function pointer')
                        vals[ins[1]] = (b[0], b[1] + off)
                    elif k == O_STORE:
                        o = ins[1]; v = vals[o[1]] if o[0] else o[1]
                        o = ins[2]; p = vals[o[1]] if o[0] else o[1]
                        if v.__class__ is list: self.store_agg(p, v, ins[4])
                        else: self.store(p, v, ins[3])
                    elif k == O_CAST:
                        o = ins[2]; v = vals[o[1]] if o[0] else o[1]; ty = ins[3]; oty = ins[4]
                        if ty == oty or (ty == 'ptr' and oty == 'ptr'): vals[ins[1]] = v
                        elif ty == 'f64' and oty == 'i64':
                            vals[ins[1]] = self.mkfloat(bits2f(v)) if isinstance(v, int) else (v if isinstance(v, RV) else FB(to_bv(v, 64)))
                        elif ty == 'i64' and oty == 'f64':
                            if isinstance(v, (float, Fraction)): vals[ins[1]] = f2bits(v)
                            elif isinstance(v, FB): vals[ins[1]] = SV(v.e)
                            elif isinstance(v, RV): vals[ins[1]] = v
                            else: raise Unsupported('bit pattern of a symbolic real')
                        elif ty[0] == '<' or oty[0] == '<': raise Unsupported('vector bitcast')
                        else: raise Unsupported('bitcast %s->%s' % (oty, ty))
                    elif k == O_CALL:
                        o = ins[2]; cal = vals[o[1]] if o[0] else o[1]
                        if not (cal.__class__ is tuple and cal[0] == 'fn'):
                            if cal == NULL or (isinstance(cal, tuple) and cal[0] == 'int'): raise Monitor('null-deref', 'call through null/invalid function pointer in ' + f.name)
                            raise Unsupported('indirect call to %r' % (cal,))
                        args2 = [vals[a[1]] if a[0] else a[1] for a in ins[3]]
                        r = self.do_call(cal[1], args2)
                        if ins[1] >= 0: vals[ins[1]] = r
                        if ins[4] is not None:
                            prev = bbid; bbid = ins[4]; break
                    elif k == O_BR:
                        prev = bbid; bbid = ins[1]; break
                    elif k == O_CBR:
                        o = ins[1]; c = vals[o[1]] if o[0] else o[1]
                        if c.__class__ is not int:
                            if isinstance(c, SV): c = 1 if self.decide(to_bool(c)) else 0
                            else: raise Unsupported('branch on %r' % (c,))
                        prev = bbid; bbid = ins[2] if (c & 1) else ins[3]; break
                    elif k == O_ICMP:
                        o = ins[3]; a = vals[o[1]] if o[0] else o[1]
                        o = ins[4]; b = vals[o[1]] if o[0] else o[1]
                        pr = ins[2]
                        if a.__class__ is int and b.__class__ is int:
                            if pr == 'eq': r = a == b
                            elif pr == 'ne': r = a != b
                            elif pr[0] == 'u': r = (a < b) if pr == 'ult' else (a <= b) if pr == 'ule' else (a > b) if pr == 'ugt' else (a >= b)
                            else:
                                bits = tybits(ins[5]); a = sext(a, bits); b = sext(b, bits)
                                r = (a < b) if pr == 'slt' else (a <= b) if pr == 'sle' else (a > b) if pr == 'sgt' else (a >= b)
                            vals[ins[1]] = 1 if r else 0
                        else: vals[ins[1]] = self.icmp(pr, a, b, ins[5])
                    elif k == O_BIN:
                        o = ins[3]; a = vals[o[1]] if o[0] else o[1]
                        o = ins[4]; b = vals[o[1]] if o[0] else o[1]
                        op = ins[2]
                        if a.__class__ is int and b.__class__ is int:
                            bits = ins[5]
                            if op == 'add': r = a + b
                            elif op == 'sub': r = a - b
                            elif op == 'mul': r = a * b
                            elif op == 'and': r = a & b
                            elif op == 'or': r = a | b
                            elif op == 'xor': r = a ^ b
                            elif op == 'shl': r = a << b if b < bits else 0
                            elif op == 'lshr': r = a >> b if b < bits else 0
                            elif op == 'ashr': r = sext(a, bits) >> min(b, bits - 1)
                            elif op == 'udiv':
                                if b == 0: raise Monitor('int-div-zero', 'udiv by zero in ' + f.name)
                                r = a // b
                            elif op == 'urem':
                                if b == 0: raise Monitor('int-div-zero', 'urem by zero in ' + f.name)
                                r = a % b
                            elif op == 'sdiv':
                                a = sext(a, bits); b = sext(b, bits)
                                if b == 0: raise Monitor('int-div-zero', 'sdiv by zero in ' + f.name)
                                if a == -(1 << (bits - 1)) and b == -1: raise Monitor('int-div-overflow', 'sdiv overflow in ' + f.name)
                                r = abs(a) // abs(b) * (1 if (a < 0) == (b < 0) else -1)
                            else:
                                a = sext(a, bits); b = sext(b, bits)
                                if b == 0: raise Monitor('int-div-zero', 'srem by zero in ' + f.name)
                                if a == -(1 << (bits - 1)) and b == -1: raise Monitor('int-div-overflow', 'srem overflow in ' + f.name)
                                r = abs(a) % abs(b) * (1 if a >= 0 else -1)
                            vals[ins[1]] = r & ((1 << bits) - 1)
                        else: vals[ins[1]] = self.binop(op, a, b, ins[5], f.name, ins[6])
                    elif k == O_FBIN:
                        o = ins[3]; a = vals[o[1]] if o[0] else o[1]
                        o = ins[4]; b = vals[o[1]] if o[0] else o[1]
                        vals[ins[1]] = self.fbin(ins[2], a, b)
                    elif k == O_CONV:
                        o = ins[3]; a = vals[o[1]] if o[0] else o[1]
                        vals[ins[1]] = self.conv(ins[2], a, ins[4], ins[5], f.name)
                    elif k == O_RET:
                        o = ins[1]
                        return None if o is None else (vals[o[1]] if o[0] else o[1])
                    elif k == O_ALLOCA:
                        o = ins[3]; nn = vals[o[1]] if o[0] else o[1]
                        if not isinstance(nn, int): nn = self.concretize(nn, 'alloca count')
                        p = self.alloc(ins[2] * nn, 'alloca@' + f.name, 'stack'); allocas.append(p[0]); vals[ins[1]] = p
                    elif k == O_FCMP:
                        o = ins[3]; a = vals[o[1]] if o[0] else o[1]
                        o = ins[4]; b = vals[o[1]] if o[0] else o[1]
                        vals[ins[1]] = self.fcmp(ins[2], a, b)
                    elif k == O_SELECT:
                        o = ins[2]; c = vals[o[1]] if o[0] else o[1]
                        o = ins[3]; x = vals[o[1]] if o[0] else o[1]
                        o = ins[4]; y = vals[o[1]] if o[0] else o[1]
                        if c.__class__ is int: vals[ins[1]] = x if (c & 1) else y
                        else: vals[ins[1]] = self.select(c, x, y, ins[5])
                    elif k == O_FNEG:
                        o = ins[2]; a = vals[o[1]] if o[0] else o[1]
                        if isinstance(a, RV): vals[ins[1]] = R.neg(a)
                        elif isinstance(a, FB): vals[ins[1]] = FB(a.e ^ z3.BitVecVal(1 << 63, 64))
                        else: vals[ins[1]] = -a
                    elif k == O_SWITCH:
                        o = ins[1]; c = vals[o[1]] if o[0] else o[1]; tgt = ins[2]
                        if c.__class__ is int:
                            for (cv, b) in ins[3]:
                                if cv == c: tgt = b; break
                        else:
                            for (cv, b) in ins[3]:
                                e = c.e
                                if self.decide((e == cv) if not z3.is_bool(e) else (e if cv else z3.Not(e))): tgt = b; break
                        prev = bbid; bbid = tgt; break
                    elif k == O_EXTRACT:
                        o = ins[2]; a = vals[o[1]] if o[0] else o[1]
                        for ix in ins[3]: a = a[ix]
                        vals[ins[1]] = a
                    elif k == O_INSERT:
                        o = ins[2]; a = vals[o[1]] if o[0] else o[1]
                        o = ins[3]; v = vals[o[1]] if o[0] else o[1]
                        vals[ins[1]] = deep_set(a, ins[4], v)
                    elif k == O_RMW:
                        o = ins[3]; p = vals[o[1]] if o[0] else o[1]
                        o = ins[4]; v = vals[o[1]] if o[0] else o[1]
                        self.atomic = True
                        old = self.load(p, ins[5], ins[6]); bits = tybits(ins[6]); kk = ins[2]
                        if not isinstance(old, int) or not isinstance(v, int): raise Unsupported('atomicrmw on symbolic value')
                        new = {'add': old + v, 'sub': old - v, 'xchg': v, 'and': old & v, 'or': old | v, 'xor': old ^ v}[kk]
                        self.store(p, mask(new, bits), ins[5]); self.atomic = False
                        vals[ins[1]] = old
                    elif k == O_CMPXCHG:
                        o = ins[2]; p = vals[o[1]] if o[0] else o[1]
                        o = ins[3]; cmpv = vals[o[1]] if o[0] else o[1]
                        o = ins[4]; newv = vals[o[1]] if o[0] else o[1]
                        self.atomic = True
                        old = self.load(p, ins[5], ins[6]); ok = 1 if old == cmpv else 0
                        if ok: self.store(p, newv, ins[5])
                        self.atomic = False
                        vals[ins[1]] = [old, ok]
                    elif k == O_FREEZE:
                        o = ins[2]; vals[ins[1]] = vals[o[1]] if o[0] else o[1]
                    elif k == O_UNREACH:
                        raise Monitor('unreachable', 'unreachable executed in ' + f.name)
                    elif k == O_LPAD or k == O_RESUME:
                        raise Unsupported('exception landing pad reached in ' + f.name)
                    elif k == O_XELEM:
                        o = ins[2]; a = vals[o[1]] if o[0] else o[1]
                        o = ins[3]; i = vals[o[1]] if o[0] else o[1]
                        vals[ins[1]] = a[i]
                    elif k == O_IELEM:
                        o = ins[2]; a = vals[o[1]] if o[0] else o[1]
                        o = ins[3]; v = vals[o[1]] if o[0] else o[1]
                        o = ins[4]; i = vals[o[1]] if o[0] else o[1]
                        a = list(a); a[i] = v; vals[ins[1]] = a
                    else:
                        raise Unsupported('IR operation %s in %s' % (ins[1], f.name))
                else:
                    raise Unsupported('block without terminator in ' + f.name)
                if steps > 4096:
                    self.steps += steps; steps = 0
                    if self.steps > self.max_steps: raise BoundExceeded('instruction budget exceeded')
        finally:
            self.steps += steps
            objs = self.objs
            for a in allocas: objs[a].freed = True; objs[a].cells = {}
    def load_agg(self, p, ty):
        return [self.load((p[0], p[1] + off), size_align(t)[0], t) if t[0] not in '{[<' else self.load_agg((p[0], p[1] + off), t) for off, t in agg_layout(ty)]
    def store_agg(self, p, v, ty):
        for (off, t), x in zip(agg_layout(ty), v):
            if isinstance(x, list): self.store_agg((p[0], p[1] + off), x, t)
            else: self.store((p[0], p[1] + off), x, size_align(t)[0])
    # ------------------------------------------------------------ symbolic / mixed operations
    def icmp(self, pr, a, b, oty):
        if isinstance(a, tuple) or isinstance(b, tuple):
            if isinstance(a, SV) or isinstance(b, SV): raise Unsupported('pointer compared with symbolic integer')
            if isinstance(a, int): a = NULL if a == 0 else ('int', a)
            if isinstance(b, int): b = NULL if b == 0 else ('int', b)
            if pr == 'eq': r = (a == b) or (a[0] != 'fn' and b[0] != 'fn' and self.addr(a) == self.addr(b) and a[0] == b[0])
            elif pr == 'ne': r = not ((a == b) or (a[0] != 'fn' and b[0] != 'fn' and a[0] == b[0] and a[1] == b[1]))
            else:
                x = self.addr(a); y = self.addr(b)
                r = {'ult': x < y, 'ule': x <= y, 'ugt': x > y, 'uge': x >= y, 'slt': x < y, 'sle': x <= y, 'sgt': x > y, 'sge': x >= y}[pr]
            return 1 if r else 0
        bits = tybits(oty)
        if isinstance(a, FB): a = SV(a.e)
        if isinstance(b, FB): b = SV(b.e)
        if bits == 1 and not is_intmode(a, b):
            za = to_bool(a); zb = to_bool(b)
            if pr == 'eq': return sv(za == zb)
            if pr == 'ne': return sv(z3.Xor(za, zb))
        if is_intmode(a, b):
            sg = not (pr[0] == 'u')
            za = to_int(a, bits, True); zb = to_int(b, bits, True)
            if pr[0] == 'u':
                # unsigned comparison of mathematical integers: negative values wrap to huge ones
                e = {'ult': z3.If((za < 0) == (zb < 0), za < zb, zb < 0), 'ule': z3.If((za < 0) == (zb < 0), za <= zb, zb < 0),
                     'ugt': z3.If((za < 0) == (zb < 0), za > zb, za < 0), 'uge': z3.If((za < 0) == (zb < 0), za >= zb, za < 0)}[pr]
            else:
                e = {'eq': za == zb, 'ne': za != zb, 'slt': za < zb, 'sle': za <= zb, 'sgt': za > zb, 'sge': za >= zb}[pr]
            return sv(e)
        za = to_bv(a, bits); zb = to_bv(b, bits)
        e = {'eq': lambda: za == zb, 'ne': lambda: za != zb, 'ult': lambda: z3.ULT(za, zb), 'ule': lambda: z3.ULE(za, zb), 'ugt': lambda: z3.UGT(za, zb),
             'uge': lambda: z3.UGE(za, zb), 'slt': lambda: za < zb, 'sle': lambda: za <= zb, 'sgt': lambda: za > zb, 'sge': lambda: za >= zb}[pr]()
        return sv(e)
    def binop(self, op, a, b, bits, fname, ty):
        if ty[0] == '<': raise Unsupported('vector arithmetic')
        if isinstance(a, tuple) or isinstance(b, tuple):
            if isinstance(a, SV) or isinstance(b, SV):
                # pointer +/- symbolic offset: enumerate
                if isinstance(b, SV): b = self.concretize(b, 'pointer offset')
                if isinstance(a, SV): a = self.concretize(a, 'pointer offset')
                b = mask(b, 64) if isinstance(b, int) else b; a = mask(a, 64) if isinstance(a, int) else a
            if op == 'sub' and isinstance(a, tuple) and isinstance(b, tuple) and a[0] == b[0]: return mask(a[1] - b[1], bits)
            if op == 'add' and isinstance(a, tuple) and isinstance(b, int) and a[0] != 'fn': return (a[0], a[1] + sext(b, 64))
            if op == 'add' and isinstance(b, tuple) and isinstance(a, int) and b[0] != 'fn': return (b[0], b[1] + sext(a, 64))
            if op == 'sub' and isinstance(a, tuple) and isinstance(b, int) and a[0] != 'fn': return (a[0], a[1] - sext(b, 64))
            ia = self.addr(a) if isinstance(a, tuple) else a; ib = self.addr(b) if isinstance(b, tuple) else b
            r = {'sub': ia - ib, 'add': ia + ib, 'and': ia & ib, 'or': ia | ib, 'xor': ia ^ ib, 'mul': ia * ib}.get(op)
            if r is None:
                if op == 'lshr': r = ia >> ib
                elif op == 'shl': r = ia << ib
                elif op == 'urem': r = ia % ib
                elif op == 'udiv': r = ia // ib
                else: raise Unsupported('pointer integer arithmetic ' + op)
            return mask(r, bits)
        if isinstance(a, FB): a = SV(a.e)
        if isinstance(b, FB): b = SV(b.e)
        if bits == 1 and not is_intmode(a, b) and op in ('and', 'or', 'xor'):
            za = to_bool(a); zb = to_bool(b)
            return sv({'xor': z3.Xor, 'and': z3.And, 'or': z3.Or}[op](za, zb))
        if is_intmode(a, b):
            za = to_int(a, bits); zb = to_int(b, bits)
            if op in ('udiv', 'urem', 'sdiv', 'srem'):
                self.monitor_if(zb == 0, 'int-div-zero', '%s by a value that can be zero in %s' % (op, fname))
                # C semantics: truncation toward zero
                if z3.is_int_value(zb):
                    # constant divisor: fresh quotient / remainder with linear defining constraints (C truncation)
                    d = zb.as_long(); ad = abs(d)
                    self._nqr = getattr(self, '_nqr', 0) + 1
                    q = z3.Int('q!%d' % self._nqr); r = z3.Int('r!%d' % self._nqr)
                    self.add_pc(z3.And(za == q * d + r, z3.Implies(za >= 0, z3.And(r >= 0, r < ad)), z3.Implies(za < 0, z3.And(r <= 0, r > -ad))))
                    return sv(q) if op in ('sdiv', 'udiv') else sv(r)
                q = z3.If(za >= 0, z3.If(zb > 0, za / zb, -(za / (-zb))), z3.If(zb > 0, -((-za) / zb), (-za) / (-zb)))
                if op in ('sdiv', 'udiv'): return sv(q)
                return sv(za - q * zb)
            e = {'add': lambda: za + zb, 'sub': lambda: za - zb, 'mul': lambda: za * zb}.get(op)
            if e is None:
                if op == 'shl' and isinstance(b, int): return sv(za * (1 << b))
                if op == 'xor' and isinstance(b, int) and b == (1 << bits) - 1: return sv(-za - 1)        # bitwise not
                if op == 'xor' and isinstance(a, int) and a == (1 << bits) - 1: return sv(-zb - 1)
                if op == 'lshr' and isinstance(b, int) and b == bits - 1: return sv(z3.If(za < 0, z3.IntVal(1), z3.IntVal(0)))   # sign bit
                if op == 'ashr' and isinstance(b, int) and b == bits - 1: return sv(z3.If(za < 0, z3.IntVal(-1), z3.IntVal(0)))
                if op == 'and' and isinstance(b, int) and b == 1: return sv(za % 2)
                if op == 'and' and isinstance(b, int) and b == (1 << (bits - 1)): return sv(z3.If(za < 0, z3.IntVal(b), z3.IntVal(0)))
                if op == 'and' and isinstance(b, int) and b == (1 << bits) - 1: return a
                if op in ('and', 'or', 'xor', 'lshr', 'ashr', 'shl'):
                    # fall back to bit-vectors for bit operations
                    za = to_bv(a, bits); zb = to_bv(b, bits)
                    r = {'and': lambda: za & zb, 'or': lambda: za | zb, 'xor': lambda: za ^ zb, 'shl': lambda: za << zb, 'lshr': lambda: z3.LShR(za, zb), 'ashr': lambda: za >> zb}[op]()
                    return sv(z3.BV2Int(r, True))
                raise Unsupported('integer-mode operation ' + op)
            return sv(e())
        za = to_bv(a, bits); zb = to_bv(b, bits)
        if op in ('udiv', 'urem', 'sdiv', 'srem'):
            self.monitor_if(zb == 0, 'int-div-zero', '%s by a value that can be zero in %s' % (op, fname))
        r = {'add': lambda: za + zb, 'sub': lambda: za - zb, 'mul': lambda: za * zb, 'and': lambda: za & zb, 'or': lambda: za | zb, 'xor': lambda: za ^ zb,
             'shl': lambda: za << zb, 'lshr': lambda: z3.LShR(za, zb), 'ashr': lambda: za >> zb, 'udiv': lambda: z3.UDiv(za, zb), 'urem': lambda: z3.URem(za, zb),
             'sdiv': lambda: za / zb, 'srem': lambda: z3.SRem(za, zb)}[op]()
        return sv(r)
    def fbin(self, op, a, b):
        if isinstance(a, RV) or isinstance(b, RV):
            if isinstance(a, FB) or isinstance(b, FB): raise Unsupported('arithmetic on opaque symbolic double bits')
            if isinstance(a, float) or isinstance(b, float): return self.fbin_special(op, a, b)
            try:
                if op == 'fadd': return R.add(a, b)
                if op == 'fsub': return R.sub(a, b)
                if op == 'fmul': return R.mul(a, b)
                if op == 'fdiv':
                    return R.div(a, b)
            except R.DivByZero as dz:
                # IEEE semantics of x / 0 on the branch where the divisor is zero
                num = dz.num
                if num.is_const(): nv = num.const_value(); return float('nan') if nv == 0 else (INF if nv > 0 else -INF)
                if self.decide(R.cmp(num, 0, 'eq')): return float('nan')
                return INF if self.decide(R.cmp(num, 0, 'gt')) else -INF
            except ZeroDivisionError:
                if self.ext.get('div_zero') == 'fork':
                    if isinstance(a, RV):
                        if self.decide(R.cmp(a, 0, 'eq')): return float('nan')
                        return INF if self.decide(R.cmp(a, 0, 'gt')) else -INF
                raise Vacuous('symbolic real divided by an exact zero: singular configuration, excluded like every zero divisor')
            raise Unsupported('frem on symbolic real')
        if isinstance(a, FB) or isinstance(b, FB): raise Unsupported('arithmetic on opaque symbolic double bits')
        if isinstance(a, list) or isinstance(b, list): raise Unsupported('vector floating-point arithmetic')
        try:
            if op == 'fadd': return a + b
            if op == 'fsub': return a - b
            if op == 'fmul': return a * b
            if op == 'fdiv': return a / b
            return self.mkfloat(math.fmod(float(a), float(b)))
        except ZeroDivisionError:
            a = float(a)
            if a != a or a == 0: return float('nan')
            neg = (a < 0) != (math.copysign(1.0, float(b)) < 0)
            return -INF if neg else INF
        except OverflowError:
            return float(a) * float(b) if op == 'fmul' else INF
    def fbin_special(self, op, a, b):
        # one operand is a non-finite concrete double: the result does not depend on the finite symbolic operand's value
        # except for its sign / zero-ness; decide those
        x = a if isinstance(a, float) else b
        if x != x: return x
        other = b if isinstance(a, float) else a
        if not isinstance(x, float) or x not in (INF, -INF):
            # finite float (ieee mode) mixed with symbolic real
            return {'fadd': R.add, 'fsub': R.sub, 'fmul': R.mul, 'fdiv': R.div}[op](Fraction(a) if isinstance(a, float) else a, Fraction(b) if isinstance(b, float) else b)
        if op in ('fadd', 'fsub'):
            if isinstance(a, float): return a
            return b if op == 'fadd' else -b
        pos = self.decide(R.cmp(other, 0, 'gt'))
        if not pos and self.decide(R.cmp(other, 0, 'eq')):
            if op == 'fmul': return float('nan')
            if op == 'fdiv': return float('nan') if isinstance(b, float) else self.mkfloat(0.0)
        sgn = 1 if pos else -1
        if op == 'fmul': return x * sgn
        if isinstance(a, float): return x * sgn     # inf / finite
        return self.mkfloat(0.0)                     # finite / inf
    def fcmp(self, pr, a, b):
        if isinstance(a, RV) or isinstance(b, RV):
            if isinstance(a, FB) or isinstance(b, FB): raise Unsupported('comparison of opaque symbolic double bits')
            if isinstance(a, float) or isinstance(b, float):
                x = a if isinstance(a, float) else b
                if x != x: return 1 if pr[0] == 'u' and pr != 'uno' or pr == 'uno' else 0
                if x in (INF, -INF):
                    if pr == 'ord': return 1
                    if pr == 'uno': return 0
                    # compare finite symbolic with +-inf
                    big = (x > 0)
                    lt = big if isinstance(b, float) else (not big)      # a < b ?
                    p2 = pr[1:]
                    return 1 if {'eq': False, 'ne': True, 'lt': lt, 'le': lt, 'gt': not lt, 'ge': not lt}[p2] else 0
                a = Fraction(a) if isinstance(a, float) else a; b = Fraction(b) if isinstance(b, float) else b
            if pr == 'ord': return 1
            if pr == 'uno': return 0
            return sv(R.cmp(a, b, pr[1:]))
        if isinstance(a, FB) or isinstance(b, FB):
            raise Unsupported('comparison of opaque symbolic double bits')
        if pr == 'uno': return 1 if (a != a or b != b) else 0
        if pr == 'ord': return 0 if (a != a or b != b) else 1
        if a != a or b != b: return 1 if pr[0] == 'u' else 0
        p2 = pr[1:]
        r = (a == b) if p2 == 'eq' else (a != b) if p2 == 'ne' else (a < b) if p2 == 'lt' else (a <= b) if p2 == 'le' else (a > b) if p2 == 'gt' else (a >= b)
        return 1 if r else 0
    def conv(self, op, a, ty, oty, fname):
        if op in ('zext', 'trunc', 'sext', 'ptrtoint', 'inttoptr'):
            if isinstance(a, tuple):
                if op == 'trunc' and a[0] != 'fn': return mask(self.addr(a), tybits(ty))
                return a
            if isinstance(a, int):
                if op == 'sext': return mask(sext(a, tybits(oty)), tybits(ty))
                if op == 'trunc': return mask(a, tybits(ty))
                if op == 'inttoptr': return NULL if a == 0 else ('int', a)
                return a
            if isinstance(a, FB): a = SV(a.e)
            if isinstance(a, SV):
                e = a.e
                if z3.is_int(e):
                    if op == 'trunc' and ty == 'i1': return sv(e % 2 != 0)
                    return a          # Int-mode: declared range excludes wrap-around (see verif_sym_int)
                if z3.is_bool(e):
                    return a if op != 'sext' else sv(z3.If(e, z3.BitVecVal(mask(-1, tybits(ty)), tybits(ty)), z3.BitVecVal(0, tybits(ty))))
                ob = tybits(oty); nb = tybits(ty) if ty != 'ptr' else 64
                if op == 'sext': return sv(z3.SignExt(nb - ob, e))
                if op == 'zext': return sv(z3.ZeroExt(nb - ob, e))
                if op == 'trunc':
                    if nb == 1: return sv(z3.Extract(0, 0, e) == 1)
                    return sv(z3.Extract(nb - 1, 0, e))
                if op == 'inttoptr': raise Unsupported('symbolic integer converted to pointer')
                return a
            raise Unsupported('conversion %s of %r' % (op, a))
        if op in ('sitofp', 'uitofp'):
            if isinstance(a, int):
                v = sext(a, tybits(oty)) if op == 'sitofp' else a
                return Fraction(v) if self.fmode == 'exact' else float(v)
            if isinstance(a, SV):
                e = a.e
                if z3.is_int(e): return RV.term(z3.ToReal(e))
                if z3.is_bool(e): return RV.term(z3.If(e, R.ONE, R.ZERO))
                return RV.term(z3.ToReal(z3.BV2Int(e, op == 'sitofp')))
            raise Unsupported('int->fp of %r' % (a,))
        if op in ('fptosi', 'fptoui'):
            bits = tybits(ty)
            lo, hi = (-(1 << (bits - 1)), (1 << (bits - 1)) - 1) if op == 'fptosi' else (0, (1 << bits) - 1)
            if isinstance(a, RV):
                e = z3.simplify(a.expr())
                self.monitor_if(z3.Or(e <= lo - 1, e >= hi + 1), 'fp-to-int-overflow', 'conversion of an out-of-range double to %s in %s' % (ty, fname))
                if z3.is_app_of(e, z3.Z3_OP_TO_REAL): return sv(e.arg(0))
                # truncation toward zero
                return sv(z3.If(e >= 0, z3.ToInt(e), -z3.ToInt(-e)))
            if isinstance(a, FB): raise Unsupported('fp->int of opaque symbolic bits')
            if isinstance(a, float) and (a != a or a in (INF, -INF)): raise Monitor('fp-to-int-overflow', 'conversion of %r to %s in %s' % (a, ty, fname))
            v = int(a)
            if v < lo or v > hi: raise Monitor('fp-to-int-overflow', 'conversion of %s to %s in %s' % (float(a), ty, fname))
            return mask(v, bits)
        if op == 'fpext': return self.mkfloat(float(a)) if isinstance(a, float) else a
        if op == 'fptrunc':
            if isinstance(a, (RV, FB)): raise Unsupported('fptrunc of symbolic')
            return struct.unpack('<f', struct.pack('<f', float(a)))[0]
        raise Unsupported('conversion ' + op)
    def select(self, c, x, y, ty):
        cb = to_bool(c)
        if x is y: return x
        if ty[0] == 'i' and not isinstance(x, tuple) and not isinstance(y, tuple) and not isinstance(x, list):
            bits = tybits(ty)
            if bits == 1 and not is_intmode(x, y): return sv(z3.If(cb, to_bool(x), to_bool(y)))
            if is_intmode(x, y): return sv(z3.If(cb, to_int(x, bits), to_int(y, bits)))
            return sv(z3.If(cb, to_bv(x, bits), to_bv(y, bits)))
        if ty == 'f64' and not isinstance(x, (FB, tuple, list)) and not isinstance(y, (FB, tuple, list)) \
           and not (isinstance(x, float) or isinstance(y, float)) \
           and not (isinstance(x, RV) and x.tan) and not (isinstance(y, RV) and y.tan):
            # real-valued select without forking: fresh symbol r with (c -> r == x) and (not c -> r == y)
            self._nsel = getattr(self, '_nsel', 0) + 1
            r = z3.Real('sel!%d' % self._nsel)
            xe = R.lift(x); ye = R.lift(y)
            self.add_pc(z3.And(z3.Implies(cb, R.cmp(RV.term(r), xe, 'eq')), z3.Implies(z3.Not(cb), R.cmp(RV.term(r), ye, 'eq'))))
            return RV.term(r)
        return x if self.decide(cb) else y
    # ------------------------------------------------------------ call dispatch
    def do_call(self, name, args):
        st = self.stubs.get(name)
        if st is None:
            st = False
            for pre, fn in self.stub_prefixes:
                if name.startswith(pre): st = fn; break
            if st is False:
                from . import stubs
                h = stubs.lookup_override(name)
                if h is not None: st = h
                elif name in self.m.funcs: st = False
                elif name in self.m.aliases:
                    tgt = self.gptr(name)
                    if isinstance(tgt, tuple) and tgt[0] == 'fn' and tgt[1] != name:
                        t2 = tgt[1]; st = (lambda I, a, t2=t2: I.do_call(t2, a))
                    else: raise Unsupported('alias ' + name)
                else:
                    h = stubs.lookup(name)
                    if h is None: raise Unsupported('unknown external ' + name)
                    st = h
            self.stubs[name] = st
        if st is not False:
            self.stub_used.add(name)
            return st(self, args)
        if len(self.stack) > 600: raise BoundExceeded('call depth')
        self.stack.append(name)
        r = self.exec_func(self.func(name), args)
        self.stack.pop()
        return r

def deep_set(a, idx, v):
    a = list(a)
    if len(idx) == 1: a[idx[0]] = v
    else: a[idx[0]] = deep_set(a[idx[0]], idx[1:], v)
    return a
