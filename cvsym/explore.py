# Path exploration by decision replay in forked children, assertion queries, result aggregation
import os, sys, time, pickle, traceback, select, signal, json
from fractions import Fraction
import z3
from . import rdom as R
from .interp import (Interp, SV, FB, RV, Monitor, Unsupported, Vacuous, BoundExceeded, PathEnd, to_bool, to_bv, to_int, sext)

QUERY_TIMEOUT_MS = int(os.environ.get('VERIF_QUERY_TIMEOUT_MS', '60000'))

def model_dict(I, m):
    out = {}
    for nm, (kind, v) in I.syms.items():
        try: val = m.eval(v, model_completion=True)
        except z3.Z3Exception: continue
        if kind == 'real':
            if z3.is_rational_value(val): out[nm] = str(Fraction(val.numerator_as_long(), val.denominator_as_long()))
            else:
                try: out[nm] = val.approx(20).as_decimal(17).rstrip('?')
                except Exception: out[nm] = str(val)
        elif kind == 'bool': out[nm] = 1 if z3.is_true(val) else 0
        else:
            try: out[nm] = val.as_long()
            except Exception: out[nm] = str(val)
    for nm, v in I.choices.items(): out[nm] = v
    return out

def _dyadic_model(I, s, extra):
    """prefer a model whose real inputs lie on a small dyadic grid (replays exactly in IEEE arithmetic)"""
    reals = [v for (k, v) in I.syms.values() if k == 'real']
    if not reals or len(reals) > 40: return None
    s.push()
    try:
        ks = []
        for i, v in enumerate(reals):
            k = z3.Int('dy!%d' % i); ks.append(k); s.add(v == z3.ToReal(k) / 64, k >= -64 * 64, k <= 64 * 64)
        s.set('timeout', 5000)
        if s.check() == z3.sat: return s.model()
    except z3.Z3Exception: pass
    finally:
        s.pop(); s.set('timeout', QUERY_TIMEOUT_MS)
    return None

def query(I, negated_goal, label, timeout=None):
    """decide pc /\\ negated_goal; returns ('unsat'|'sat'|'unknown', model dict or None)"""
    s = z3.Solver(); s.set('timeout', timeout or QUERY_TIMEOUT_MS)
    s.add(I.all_constraints()); s.add(negated_goal)
    t0 = time.time(); r = s.check(); dt = time.time() - t0
    I.nq += 1; I.tq += dt
    md = None
    if r == z3.sat:
        m0 = s.model()
        m = _dyadic_model(I, s, None) or m0
        md = model_dict(I, m)
    return str(r), md, dt

def witness(I, label):
    if I.inputs is not None: return
    ok = None
    if I.models: ok = 'sat'
    else:
        r = I.check(z3.BoolVal(True), timeout=20000)
        ok = str(r)
    I.results.append({'kind': 'witness', 'label': label, 'status': ok, 'detail': None})

def assert_bool(I, c, label):
    if I.inputs is not None: return
    if isinstance(c, int):
        st = 'unsat' if (c & 1) else 'sat'
        md = None
        if st == 'sat':
            # concrete failure on this path: any model of the path condition is a counterexample
            r, md, dt = query(I, z3.BoolVal(True), label)
            if r != 'sat': st = 'unknown' if r == 'unknown' else 'unsat'   # unreachable path: vacuous
        I.results.append({'kind': 'assert', 'label': label, 'status': st, 'detail': md, 'concrete': True}); return
    e = to_bool(c)
    r, md, dt = query(I, z3.Not(e), label)
    I.results.append({'kind': 'assert', 'label': label, 'status': r, 'detail': md, 't': round(dt, 3)})

def _as_real(I, x):
    if isinstance(x, RV): return x
    if isinstance(x, Fraction): return RV.const(x)
    if isinstance(x, int): return RV.const(x)
    if isinstance(x, float):
        if x != x or x in (float('inf'), float('-inf')): return None
        return RV.const(Fraction(x))
    return None

def prove_equal(I, a, b, label, kind='assert'):
    ra = _as_real(I, a); rb = _as_real(I, b)
    if ra is None or rb is None:
        # non-finite concrete values or opaque bits: structural comparison
        if isinstance(a, FB) and isinstance(b, FB):
            r, md, dt = query(I, a.e != b.e, label)
            I.results.append({'kind': kind, 'label': label, 'status': r, 'detail': md}); return
        same = (not isinstance(a, RV) and not isinstance(b, RV)) and ((a == b) or (a != a and b != b))
        if same:
            I.results.append({'kind': kind, 'label': label, 'status': 'unsat', 'detail': None, 'concrete': True}); return
        # a non-finite value against a finite one: any model of the path condition is a counterexample
        r, md, dt = query(I, z3.BoolVal(True), label)
        I.results.append({'kind': kind, 'label': label, 'status': 'sat' if r == 'sat' else ('unsat' if r == 'unsat' else 'unknown'), 'detail': md, 'nonfinite': [repr(a)[:40], repr(b)[:40]], 'concrete': True}); return
    t0 = time.time()
    qs = R.equal_queries(ra, rb)
    pend = []
    for q in qs:
        qq = z3.simplify(q)
        if z3.is_rational_value(qq) and qq.numerator_as_long() == 0: continue
        pend.append(qq)
    if not pend:
        I.results.append({'kind': kind, 'label': label, 'status': 'unsat', 'detail': None, 'how': 'normal-form identical', 't': round(time.time() - t0, 3)}); return
    # each coefficient must vanish under the path condition
    allun = True
    cons = None
    for q in pend:
        # stage 1: identically zero as a polynomial (no path condition needed)
        s = z3.Solver(); s.set('timeout', 10000); s.add(q != 0)
        tq = time.time(); r = s.check(); I.nq += 1; I.tq += time.time() - tq
        if r == z3.unsat: continue
        # stage 2: zero under the path condition
        if cons is None: cons = I.all_constraints()
        s = z3.Solver(); s.set('timeout', QUERY_TIMEOUT_MS); s.add(cons); s.add(q != 0)
        tq = time.time(); r = s.check(); I.nq += 1; I.tq += time.time() - tq
        if r != z3.unsat: allun = False; break
    if allun:
        I.results.append({'kind': kind, 'label': label, 'status': 'unsat', 'detail': None, 'how': 'coefficients', 'nq': len(pend), 't': round(time.time() - t0, 3)}); return
    # full query with generator variables (needed when generators are dependent, and to obtain a genuine model)
    r, md, dt = query(I, ra.expr() != rb.expr(), label)
    I.results.append({'kind': kind, 'label': label, 'status': r, 'detail': md, 'how': 'full', 't': round(time.time() - t0, 3)})

def assert_eq(I, a, b, label):
    if I.inputs is not None: return
    if isinstance(a, (int, SV)) and not isinstance(a, bool) and isinstance(b, (int, SV)):
        raise Unsupported('verif_assert_eq on integers')
    prove_equal(I, a, b, label)

def assert_deriv(I, f, var, expected, label):
    if I.inputs is not None: return
    df = f.d_of(var) if isinstance(f, RV) else RV({})
    prove_equal(I, df, expected, label)

# ---------------------------------------------------------------------------------------------- path runner
def _strval(v):
    if isinstance(v, RV):
        try: return 'sym:' + str(z3.simplify(v.expr()))[:200]
        except Exception: return 'sym'
    if isinstance(v, (SV, FB)): return 'sym:' + str(v.e)[:200]
    if isinstance(v, Fraction): return float(v)
    return v

def run_path(I, fn, decisions, time_limit):
    """executed in a forked child: run harness function fn under the given decision prefix"""
    I.decisions = list(decisions); I.dpos = 0
    res = {'status': 'ok', 'msg': None}
    t0 = time.time()
    def on_alarm(sig, frm): raise BoundExceeded('path wall-time limit (%d s)' % time_limit)
    try: signal.signal(signal.SIGALRM, on_alarm); signal.alarm(int(time_limit))
    except ValueError: pass     # not in the main thread (in-process debugging run)
    try:
        I.run(fn, [])
    except PathEnd: pass
    except Vacuous as ex: res['status'] = 'vacuous'; res['msg'] = str(ex)
    except Monitor as ex:
        res['status'] = 'monitor'; res['msg'] = str(ex); res['monitor_kind'] = ex.kind; res['stack'] = list(I.stack[-8:])
        # a monitor hit is a violation only if the path is feasible: obtain a model of the path condition
        try:
            r, md, dt = query(I, z3.BoolVal(True), 'monitor')
            res['monitor_model'] = md; res['monitor_feasible'] = r
        except Exception as e2: res['monitor_feasible'] = 'unknown'
    except Unsupported as ex: res['status'] = 'unsupported'; res['msg'] = str(ex); res['stack'] = list(I.stack[-8:])
    except R.Unsupported as ex: res['status'] = 'unsupported'; res['msg'] = str(ex); res['stack'] = list(I.stack[-8:])
    except BoundExceeded as ex:
        res['status'] = 'bound'; res['msg'] = str(ex); res['stack'] = list(I.stack[-8:])
        if I.ext.get('bound_is_hang'):
            # the instruction budget of this harness is far above what any terminating path needs: candidate hang,
            # to be confirmed by the native replay running into its time limit
            try:
                signal.alarm(60)
                r, md, dt = query(I, z3.BoolVal(True), 'hang', timeout=30000)
                res['monitor_model'] = md; res['monitor_feasible'] = r; res['status'] = 'monitor'; res['monitor_kind'] = 'hang'
                res['msg'] = 'hang: ' + str(ex)
            except Exception: pass
    except z3.Z3Exception as ex: res['status'] = 'unsupported'; res['msg'] = 'z3: ' + str(ex)[:300]; res['stack'] = list(I.stack[-8:])
    except RecursionError: res['status'] = 'bound'; res['msg'] = 'python recursion limit'
    except Exception as ex:
        res['status'] = 'internal'; res['msg'] = traceback.format_exc()[-3000:]; res['stack'] = list(I.stack[-8:])
    try: signal.alarm(0)
    except ValueError: pass
    res['decisions'] = list(I.decisions[:I.dpos]) if I.dpos <= len(I.decisions) else list(I.decisions)
    res['ndec'] = I.dpos
    res['results'] = I.results
    res['outs'] = {k: _strval(v) for k, v in I.outs.items()}
    res['errors'] = [str(e)[:300] for e in (I.ext.get('errors') or [])[-3:]]
    res['steps'] = I.steps; res['nq'] = I.nq; res['tq'] = round(I.tq, 3); res['wall'] = round(time.time() - t0, 3)
    res['called'] = sorted(I.called); res['stubs'] = sorted(I.stub_used); res['notes'] = I.notes; res['choices'] = dict(I.choices)
    res['gens'] = len(R.ST.gens); res['denoms'] = len(R.ST.denoms); res['trans'] = sorted(set(k for (k, a, v) in R.ST.trans.values()))
    res['pc_len'] = len(I.pc)
    if I.fork_sites is not None: res['fork_sites'] = I.fork_sites
    if I.ext.get('post'):
        try: res['post'] = I.ext['post'](I)
        except Exception as ex: res['status'] = 'internal'; res['msg'] = 'post hook: ' + traceback.format_exc()[-2000:]
    return res

POOL = None     # optional semaphore shared by concurrently running explorations (set by checklib)

def explore(I, fn, max_paths=2000, workers=16, path_time=300, total_time=1800, progress=None):
    """explore all feasible paths of harness function fn starting from the current (concrete) interpreter state.
    Each path runs in a forked child.  Returns list of path results + summary."""
    sys.stdout.flush(); sys.stderr.flush()
    work = [[]]; running = {}; done = []; t0 = time.time(); truncated = None; base_steps = I.steps
    while work or running:
        while work and len(running) < workers and len(done) + len(running) < max_paths and time.time() - t0 < total_time:
            token = False
            if POOL is not None and running:
                token = POOL.acquire(block=False)
                if not token: break
            prefix = work.pop()
            r, w = os.pipe()
            pid = os.fork()
            if pid == 0:
                os.close(r)
                try:
                    I.m.reopen()
                    I.steps = 0
                    res = run_path(I, fn, prefix, path_time)
                    res['prefix_len'] = len(prefix)
                    data = pickle.dumps(res)
                except BaseException as ex:
                    data = pickle.dumps({'status': 'internal', 'msg': 'child: ' + traceback.format_exc()[-2000:], 'decisions': prefix, 'ndec': len(prefix), 'prefix_len': len(prefix), 'results': [], 'outs': {}, 'steps': 0, 'nq': 0, 'tq': 0, 'wall': 0, 'called': [], 'stubs': [], 'notes': [], 'choices': {}})
                with os.fdopen(w, 'wb') as f: f.write(data)
                os._exit(0)
            os.close(w); running[r] = (pid, prefix, bytearray(), time.time(), token)
        if not running:
            if work: truncated = 'path or time budget exhausted with %d unexplored prefixes' % len(work)
            break
        rl, _, _ = select.select(list(running), [], [], 1.0)
        for fd in rl:
            chunk = os.read(fd, 1 << 20)
            if chunk: running[fd][2].extend(chunk); continue
            pid, prefix, buf, ts, token = running.pop(fd); os.close(fd); os.waitpid(pid, 0)
            if token: POOL.release()
            try: res = pickle.loads(bytes(buf))
            except Exception:
                res = {'status': 'internal', 'msg': 'child died without result (prefix %r)' % (prefix,), 'decisions': prefix, 'ndec': len(prefix), 'prefix_len': len(prefix), 'results': [], 'outs': {}, 'steps': 0, 'nq': 0, 'tq': 0, 'wall': 0, 'called': [], 'stubs': [], 'notes': [], 'choices': {}}
            done.append(res)
            d = res['decisions']
            for i in range(res['prefix_len'], len(d)):
                work.append(d[:i] + [not d[i]])
            if progress: progress(res, len(done), len(work) + len(running))
        # kill children that exceed twice the per-path limit (alarm should already have fired)
        now = time.time()
        for fd, (pid, prefix, buf, ts, token) in list(running.items()):
            if now - ts > 2 * path_time + 30:
                try: os.kill(pid, signal.SIGKILL)
                except OSError: pass
    if work and truncated is None: truncated = 'path or time budget exhausted with %d unexplored prefixes' % len(work)
    return done, truncated

def summarize(paths, truncated):
    s = {'paths': len(paths), 'truncated': truncated, 'by_status': {}, 'asserts': {}, 'witnesses': {}, 'violations': [], 'inconclusive': [],
         'steps': 0, 'nq': 0, 'tq': 0.0, 'called': set(), 'stubs': set(), 'notes': set(), 'trans': set(), 'denoms': 0, 'gens': 0}
    for p in paths:
        s['by_status'][p['status']] = s['by_status'].get(p['status'], 0) + 1
        s['steps'] += p.get('steps', 0); s['nq'] += p.get('nq', 0); s['tq'] += p.get('tq', 0)
        s['called'].update(p.get('called', ())); s['stubs'].update(p.get('stubs', ())); s['notes'].update(p.get('notes', ())); s['trans'].update(p.get('trans', ()))
        s['denoms'] = max(s['denoms'], p.get('denoms', 0)); s['gens'] = max(s['gens'], p.get('gens', 0))
        if p['status'] == 'monitor':
            site = (p.get('stack') or ['?'])[-1]
            if p.get('monitor_feasible') == 'sat': s['violations'].append({'label': 'monitor:' + p.get('monitor_kind', '?') + '@' + site[:80], 'msg': p['msg'], 'model': p.get('monitor_model'), 'decisions': p['decisions'], 'stack': p.get('stack')})
            elif p.get('monitor_feasible') == 'unsat': pass
            else: s['inconclusive'].append({'label': 'monitor', 'msg': p['msg'] + ' (feasibility unknown)', 'decisions': p['decisions']})
        elif p['status'] in ('unsupported', 'bound', 'internal'):
            s['inconclusive'].append({'label': p['status'], 'msg': p['msg'], 'decisions': p['decisions'], 'stack': p.get('stack')})
        for r in p.get('results', []):
            if r['kind'] == 'witness':
                w = s['witnesses'].setdefault(r['label'], {'sat': 0, 'other': 0})
                if r['status'] == 'sat': w['sat'] += 1
                else: w['other'] += 1
                continue
            a = s['asserts'].setdefault(r['label'], {'unsat': 0, 'sat': 0, 'unknown': 0, 'skipped': 0})
            a[r['status']] = a.get(r['status'], 0) + 1
            if r['status'] == 'sat': s['violations'].append({'label': r['label'], 'model': r.get('detail'), 'decisions': p['decisions'], 'choices': p.get('choices')})
            elif r['status'] == 'unknown': s['inconclusive'].append({'label': r['label'], 'msg': 'solver returned unknown', 'decisions': p['decisions']})
    if truncated: s['inconclusive'].append({'label': 'exploration', 'msg': truncated})
    s['called'] = sorted(s['called']); s['stubs'] = sorted(s['stubs']); s['notes'] = sorted(s['notes']); s['trans'] = sorted(s['trans'])
    return s
