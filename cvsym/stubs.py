# Native models of everything outside the IR (DESIGN.md 3.5) and the harness API (verif_*)
import math, struct, sys
from fractions import Fraction
import z3
from . import rdom as R
from .interp import (SV, FB, RV, NULL, INF, Monitor, Unsupported, Vacuous, BoundExceeded, PathEnd, mask, sext, to_bv, to_int, to_bool, sv,
                     f2bits, bits2f, tybits)

EXACT = {}; PREFIX = []
def ext(*names):
    def deco(fn):
        for n in names: EXACT[n] = fn
        return fn
    return deco
def extp(*prefixes):
    def deco(fn):
        for p in prefixes: PREFIX.append((p, fn))
        return fn
    return deco
OVERRIDE_PREFIX = ('_ZSt16__convert_from_v', '_ZSt14__convert_to_v', '_ZSt9use_facet', '_ZSt9has_facet', '_ZNKSt11__use_cacheISt16__numpunct_cache', '_ZNSt6locale7classicEv', '_ZNKSt6locale2id5_M_idEv')
NUMPUT_INT = '_ZNKSt7num_putIcSt19ostreambuf_iteratorIcSt11char_traitsIcEEE13_M_insert_intI'
NUMGET = '_ZNKSt7num_getIcSt19istreambuf_iteratorIcSt11char_traitsIcEEE6do_getES3_S3_RSt8ios_baseRSt12_Ios_IostateR'
def lookup_override(name):
    """models that take precedence over a definition present in the IR"""
    if name.startswith('verif_') and name in EXACT: return EXACT[name]
    for p in OVERRIDE_PREFIX:
        if name.startswith(p): return lookup(name)
    if name.startswith(NUMPUT_INT): return lambda I, a, n=name: _insert_int(I, a, n)
    if name.startswith(NUMGET) and name[len(NUMGET):] in ('d', 'l', 'm', 'x', 'y', 'j', 't', 'b'):
        return lambda I, a, n=name: _do_get(I, a, n)
    return None

def new_token(I, v):
    toks = I.ext.setdefault('tokens', [])
    toks.append(v); return b'\x1b%d\x1b' % (len(toks) - 1)

def _insert_int(I, a, name):
    """num_put::_M_insert_int<T>(iter, ios_base&, char fill, T v): a symbolic integer is written as an in-band token,
    padded to io.width() exactly like the real code pads digits"""
    v = a[5]
    if isinstance(v, int): return I.exec_func(I.func(name), a)
    tok = new_token(I, v)
    io = a[3]; w = sext(I.load((io[0], io[1] + 16), 8, 'i64'), 64); flags = I.load((io[0], io[1] + 24), 4, 'i32'); fill = a[4] & 255
    if w > len(tok):
        pad = bytes([fill]) * (w - len(tok)); tok = (tok + pad) if (flags & 0xB0) == 0x20 else (pad + tok)
    I.store((io[0], io[1] + 16), 0, 8)
    buf = I.alloc(len(tok) + 1, 'tokbuf'); I.write_bytes(buf, list(tok))
    r = I.do_call('_ZSt7__writeIcESt19ostreambuf_iteratorIT_St11char_traitsIS1_EES4_PKS1_i', [a[1], a[2], buf, len(tok)])
    I.objs[buf[0]].freed = True
    return r

def _do_get(I, a, name):
    """num_get::do_get(iter beg, iter end, ios_base&, iostate& err, T& v): an in-band token at the read position yields
    the symbolic value it stands for; anything else is parsed by the real libstdc++ code"""
    sb = a[1]
    if sb == NULL or not isinstance(sb[0], int): return I.exec_func(I.func(name), a)
    cur = I.load((sb[0], sb[1] + 16), 8, 'ptr'); end = I.load((sb[0], sb[1] + 24), 8, 'ptr')
    if cur == NULL or end == NULL or cur[0] != end[0] or cur[1] >= end[1]: return I.exec_func(I.func(name), a)
    o = I.objs[cur[0]]
    b0 = I.load_byte(o, cur[1])
    if not (isinstance(b0, int) and b0 == TOKEN_ESC): return I.exec_func(I.func(name), a)
    j = cur[1] + 1; digs = bytearray()
    while j < end[1]:
        b = I.load_byte(o, j)
        if not isinstance(b, int): raise Unsupported('symbolic byte inside a token')
        if b == TOKEN_ESC: break
        digs.append(b); j += 1
    else:
        # truncated token: the number was cut; behave as a failed extraction
        I.store((sb[0], sb[1] + 16), (cur[0], end[1]), 8)
        e = I.load(a[6], 4, 'i32'); I.store(a[6], e | 4 | 2, 4)
        return [NULL, mask(-1, 32)]
    val = I.ext['tokens'][int(digs.decode())]
    ty = name[len(NUMGET):]
    if ty == 'd':
        if isinstance(val, SV): val = I.conv('sitofp', val, 'f64', 'i64', name)
        I.store(a[7], val, 8)
    elif ty == 'b':
        if not isinstance(val, (SV, int)): raise Unsupported('boolean read from a real-valued token')
        I.store(a[7], val, 1)
    else:
        if isinstance(val, (RV, FB)): raise Unsupported('integer read from a real-valued token')
        I.store(a[7], val, {'l': 8, 'm': 8, 'x': 8, 'y': 8, 'j': 4, 't': 2}[ty])
    newcur = (cur[0], j + 1)
    I.store((sb[0], sb[1] + 16), newcur, 8)
    if newcur[1] >= end[1]:
        e = I.load(a[6], 4, 'i32'); I.store(a[6], e | 2, 4)      # eofbit, as the real code sets when the buffer is exhausted
        return [NULL, mask(-1, 32)]
    return [sb, mask(-1, 32)]

def lookup(name):
    h = EXACT.get(name)
    if h is not None: return h
    for p, fn in PREFIX:
        if name.startswith(p): return fn
    return None

def conc(I, x, what):
    if isinstance(x, int): return x
    if isinstance(x, SV): return I.concretize(x, what)
    raise Unsupported('%s is %r' % (what, x))

# ------------------------------------------------------------------ llvm intrinsics / libc
@extp('llvm.lifetime', 'llvm.dbg', 'llvm.experimental.noalias', 'llvm.var.annotation', 'llvm.invariant')
def _noop(I, a): return None
@ext('llvm.assume')
def _assume(I, a): return None
@extp('llvm.memcpy', 'llvm.memmove')
def _memcpy(I, a):
    n = conc(I, a[2], 'memcpy length')
    if n > I.max_alloc: raise Monitor('out-of-bounds', 'memcpy of %d bytes' % n)
    I.memcpy(a[0], a[1], n); return None
@ext('memcpy', 'memmove')
def _memcpy2(I, a):
    _memcpy(I, a); return a[0]
@extp('llvm.memset')
def _memset(I, a):
    n = conc(I, a[2], 'memset length'); v = a[1]
    if n == 0: return None
    if n > I.max_alloc: raise Monitor('out-of-bounds', 'memset of %d bytes' % n)
    p = a[0]
    if not isinstance(p[0], int) or p[0] == 0: I._bad(p, 'memset', n)
    o = I.objs[p[0]]
    if p[1] < 0 or p[1] + n > o.size: raise Monitor('out-of-bounds', 'memset of %d bytes at offset %d of %s (size %d)' % (n, p[1], o.name, o.size))
    if isinstance(v, int) and n >= 64:
        # bulk: drop covered cells, write bytes only if non-zero
        v &= 255
        lo = p[1]; hi = p[1] + n
        for back in range(1, 16):
            c = o.cells.get(lo - back)
            if c is not None:
                if c[0] > back: I.split(o, lo - back)
                break
        for k in [k for k in o.cells if lo <= k < hi]:
            c = o.cells[k]
            if k + c[0] > hi: I.split(o, k)
        for k in [k for k in o.cells if lo <= k < hi]: del o.cells[k]
        if v:
            for i in range(lo, hi): o.cells[i] = (1, v)
        if I.logging: I.log.append((p[0], lo, n, 'w', I.tid, I.atomic or bool(I.locks)))
        return None
    for i in range(n): I.store((p[0], p[1] + i), (v & 255) if isinstance(v, int) else v, 1)
    return None
@ext('memset')
def _memset2(I, a):
    _memset(I, a); return a[0]
@extp('llvm.expect')
def _expect(I, a): return a[0]
@extp('llvm.is.constant')
def _isconst(I, a): return 0
@extp('llvm.objectsize')
def _objsize(I, a): return mask(-1, 64)
@extp('llvm.stacksave')
def _ss(I, a): return NULL
@extp('llvm.stackrestore', 'llvm.prefetch', 'llvm.trap.unused')
def _sr(I, a): return None
@ext('llvm.trap')
def _trap(I, a): raise Monitor('trap', 'llvm.trap executed')
@ext('abort')
def _abort(I, a): raise Monitor('abort', 'abort() called')
@ext('exit', '_exit')
def _exit(I, a): raise Monitor('exit', 'exit() called')
@ext('_ZSt9terminatev')
def _term(I, a): raise Monitor('terminate', 'std::terminate called')
@ext('__cxa_pure_virtual')
def _pv(I, a): raise Monitor('pure-virtual', 'pure virtual function called')
@ext('__assert_fail')
def _af(I, a): raise Monitor('assert', 'assertion failed: ' + I.cstr(a[0]))

@ext('_Znwm', '_Znam', 'malloc')
def _new(I, a):
    n = a[0]
    if isinstance(n, SV):
        e = n.e
        big = (e > I.max_alloc) if z3.is_int(e) else z3.UGT(to_bv(e, 64), I.max_alloc)
        if I.feasible(big): raise Monitor('unchecked-allocation', 'allocation whose size is not bounded by any preceding check (can exceed %d bytes)' % I.max_alloc)
        n = I.concretize(n, 'allocation size')
    if n > I.max_alloc: raise Monitor('unchecked-allocation', 'allocation of %d bytes' % n)
    return I.alloc(n, 'heap')
@ext('calloc')
def _calloc(I, a): return _new(I, [a[0] * a[1]])
@ext('realloc')
def _realloc(I, a):
    p = _new(I, [a[1]])
    if a[0] != NULL:
        o = I.objs[a[0][0]]; I.memcpy(p, a[0], min(o.size, a[1])); o.freed = True
    return p
@ext('_ZdlPv', '_ZdaPv', 'free', '_ZdlPvm', '_ZdaPvm')
def _delete(I, a):
    p = a[0]
    if p == NULL or p == 0: return None
    if not isinstance(p[0], int): raise Monitor('bad-free', 'free of %r' % (p,))
    o = I.objs[p[0]]
    if o.freed: raise Monitor('double-free', 'double free of %s' % o.name)
    if o.kind != 'heap' or p[1] != 0: raise Monitor('bad-free', 'free of non-heap or interior pointer (%s+%d)' % (o.name, p[1]))
    o.freed = True; o.cells = {}
    return None
@ext('strlen')
def _strlen(I, a):
    p = a[0]
    if not isinstance(p[0], int) or p[0] == 0: I._bad(p, 'strlen', 1)
    o = I.objs[p[0]]; n = 0
    if o.freed: raise Monitor('use-after-free', 'strlen on freed ' + o.name)
    while True:
        if p[1] + n >= o.size: raise Monitor('out-of-bounds', 'strlen past the end of %s' % o.name)
        b = I.load_byte(o, p[1] + n)
        if isinstance(b, SV):
            if I.decide(to_bv(b, 8) == 0): return n
        elif b == 0: return n
        n += 1
@ext('memcmp', 'bcmp')
def _memcmp(I, a):
    n = conc(I, a[2], 'memcmp length')
    if n == 0: return 0
    x = I.read_bytes(a[0], n); y = I.read_bytes(a[1], n)
    # concrete prefix decides; a symbolic tail becomes one ite-chain (no forking per byte)
    res = None
    for i in range(n - 1, -1, -1):
        if isinstance(x[i], int) and isinstance(y[i], int):
            if x[i] != y[i]: res = mask(-1, 32) if x[i] < y[i] else 1
            continue
        zx = to_bv(x[i], 8); zy = to_bv(y[i], 8)
        tail = to_bv(res if res is not None else 0, 32)
        res = SV(z3.If(zx == zy, tail, z3.If(z3.ULT(zx, zy), z3.BitVecVal(mask(-1, 32), 32), z3.BitVecVal(1, 32))))
    if res is None: return 0
    return sv(res.e) if isinstance(res, SV) else res
@ext('strcmp')
def _strcmp(I, a):
    x = I.cstr(a[0]); y = I.cstr(a[1])
    return 0 if x == y else (mask(-1, 32) if x < y else 1)
@ext('strncmp')
def _strncmp(I, a):
    n = conc(I, a[2], 'n'); x = I.cstr(a[0])[:n]; y = I.cstr(a[1])[:n]
    return 0 if x == y else (mask(-1, 32) if x < y else 1)
@ext('memchr')
def _memchr(I, a):
    n = conc(I, a[2], 'memchr length'); c = a[1]
    if n == 0: return NULL
    bs = I.read_bytes(a[0], n)
    for i, b in enumerate(bs):
        if isinstance(b, int) and isinstance(c, int):
            if b == (c & 255): return (a[0][0], a[0][1] + i)
        else:
            if I.decide(to_bv(b, 8) == z3.Extract(7, 0, to_bv(c, 32))): return (a[0][0], a[0][1] + i)
    return NULL
@ext('strchr')
def _strchr(I, a):
    s = I.cstr(a[0]); i = s.find(chr(a[1] & 255))
    if (a[1] & 255) == 0: return (a[0][0], a[0][1] + len(s))
    return NULL if i < 0 else (a[0][0], a[0][1] + i)
@ext('tolower')
def _tolower(I, a):
    c = a[0]
    if isinstance(c, SV):
        e = to_bv(c, 32); return sv(z3.If(z3.And(z3.UGE(e, 65), z3.ULE(e, 90)), e + 32, e))
    return c + 32 if 65 <= c <= 90 else c
@ext('toupper')
def _toupper(I, a):
    c = a[0]
    if isinstance(c, SV):
        e = to_bv(c, 32); return sv(z3.If(z3.And(z3.UGE(e, 97), z3.ULE(e, 122)), e - 32, e))
    return c - 32 if 97 <= c <= 122 else c
@ext('__cxa_atexit', 'atexit')
def _atexit(I, a): return 0
@ext('getenv', 'secure_getenv')
def _getenv(I, a): return NULL
@ext('__errno_location')
def _errno(I, a):
    if 'errno' not in I.ext: I.ext['errno'] = I.alloc(4, 'errno', 'global')
    return I.ext['errno']
@ext('_ZSt18uncaught_exceptionv')
def _uncaught(I, a): return 0
@ext('_ZSt19uncaught_exceptionsv')
def _uncaughts(I, a): return 0
@ext('__cxa_guard_acquire')
def _ga(I, a):
    v = I.load(a[0], 1, 'i8'); return 0 if v else 1
@ext('__cxa_guard_release')
def _gr(I, a):
    I.store(a[0], 1, 1); return None
@ext('__cxa_guard_abort')
def _gab(I, a): return None
@ext('time')
def _time(I, a): return 1700000000
@ext('rand')
def _rand(I, a): return 12345
@ext('sleep', 'usleep')
def _sleep(I, a): return 0

# exceptions: nothing in the library build catches, so any throw is a monitor event
@ext('__cxa_allocate_exception')
def _cae(I, a): return I.alloc(a[0] + 128, 'exception')
@ext('__cxa_throw', '__cxa_rethrow')
def _throw(I, a):
    ti = a[1] if len(a) > 1 else None
    nm = '?'
    if ti is not None and isinstance(ti, tuple) and isinstance(ti[0], int) and ti[0]: nm = I.objs[ti[0]].name
    raise Monitor('exception', 'C++ exception thrown (type info %s) in %s' % (nm, I.stack[-1] if I.stack else '?'))
@extp('_ZSt20__throw_length_error', '_ZSt17__throw_bad_alloc', '_ZSt24__throw_out_of_range', '_ZSt19__throw_logic_error', '_ZSt16__throw_bad_cast',
      '_ZSt28__throw_bad_array_new_length', '_ZSt20__throw_out_of_range', '_ZSt21__throw_runtime_error', '_ZSt19__throw_ios_failure',
      '_ZSt25__throw_bad_function_call', '_ZSt24__throw_invalid_argument', '_ZSt20__throw_system_error', '_ZSt21__throw_bad_exception',
      '_ZSt22__throw_overflow_error', '_ZSt20__throw_domain_error', '_ZSt19__throw_range_error', '_ZSt23__throw_underflow_error')
def _throwfn(I, a):
    msg = ''
    try:
        if a and isinstance(a[0], tuple): msg = I.cstr(a[0])[:80]
    except Exception: pass
    raise Monitor('exception', 'uncaught C++ exception (%s) in %s' % (msg, I.stack[-1] if I.stack else '?'))

# ------------------------------------------------------------------ libm
def _approx_ok(I):
    return I.fmode != 'exact' or I.ext.get('libm_host_ok', False)
def fl(I, x):
    """host-libm result of a concrete call: only legitimate where rounding is outside the claim anyway"""
    return I.mkfloat(x)
def _conc_f(x): return isinstance(x, (int, float, Fraction))

@ext('sqrt', 'llvm.sqrt.f64')
def _sqrt(I, a):
    x = a[0]
    if isinstance(x, RV): return R.sqrt(x)
    if isinstance(x, Fraction):
        if x < 0: return float('nan')
        rn = math.isqrt(x.numerator); rd = math.isqrt(x.denominator)
        if rn * rn == x.numerator and rd * rd == x.denominator: return Fraction(rn, rd)
        if I.ext.get('concrete_irrational') == 'host': return Fraction(math.sqrt(x))
        return R.sqrt(RV.const(x))
    if isinstance(x, FB): raise Unsupported('sqrt of opaque bits')
    return math.sqrt(x) if x >= 0 else float('nan')
@ext('llvm.fabs.f64', 'fabs')
def _fabs(I, a):
    x = a[0]
    if isinstance(x, RV): return x if I.decide(R.cmp(x, 0, 'ge')) else R.neg(x)
    if isinstance(x, FB): return FB(x.e & z3.BitVecVal((1 << 63) - 1, 64))
    return abs(x)
@ext('llvm.floor.f64', 'floor')
def _floor(I, a):
    x = a[0]
    if isinstance(x, RV):
        k, c = R.floor_int(x)
        if c is not None:
            I.add_pc(c)
            # if the path condition leaves a single value for the floor, use it concretely
            try:
                # light solver: path condition and axioms only (no generator definitions / non-zero denominators)
                ls = z3.Solver(); ls.set('timeout', 3000); ls.add(I.pc); ls.add(R.ST.axioms)
                if ls.check() == z3.sat:
                    k0 = ls.model().eval(k, model_completion=True)
                    if z3.is_int_value(k0):
                        ls.add(k != k0)
                        if ls.check() == z3.unsat:
                            I.add_pc(k == k0); R.ST.floor_const[k.decl().name()] = k0.as_long()
                            return Fraction(k0.as_long())
            except z3.Z3Exception: pass
        elif k.decl().name() in R.ST.floor_const: return Fraction(R.ST.floor_const[k.decl().name()])
        return RV.term(z3.ToReal(k))
    if isinstance(x, float) and (x != x or x in (INF, -INF)): return x
    return I.mkfloat(float(math.floor(x))) if isinstance(x, float) else Fraction(math.floor(x))
@ext('llvm.ceil.f64', 'ceil')
def _ceil(I, a):
    x = a[0]
    if isinstance(x, RV):
        k, c = R.floor_int(R.neg(x))
        if c is not None: I.add_pc(c)
        return RV.term(-z3.ToReal(k))
    if isinstance(x, float) and (x != x or x in (INF, -INF)): return x
    return I.mkfloat(float(math.ceil(x))) if isinstance(x, float) else Fraction(math.ceil(x))
@ext('llvm.rint.f64', 'rint', 'llvm.nearbyint.f64', 'nearbyint', 'llvm.round.f64', 'round')
def _round(I, a):
    x = a[0]
    if isinstance(x, RV): raise Unsupported('round of symbolic real')
    if isinstance(x, float) and (x != x or x in (INF, -INF)): return x
    return I.mkfloat(float(round(x))) if isinstance(x, float) else Fraction(round(x))
@ext('llvm.trunc.f64', 'trunc')
def _trunc(I, a):
    x = a[0]
    if isinstance(x, RV): raise Unsupported('trunc of symbolic real')
    return Fraction(math.trunc(x)) if isinstance(x, Fraction) else float(math.trunc(x))
@ext('llvm.fmuladd.f64', 'llvm.fma.f64', 'fma')
def _fma(I, a):
    return I.fbin('fadd', I.fbin('fmul', a[0], a[1]), a[2])
@ext('llvm.copysign.f64', 'copysign')
def _copysign(I, a):
    if isinstance(a[0], RV) or isinstance(a[1], RV): raise Unsupported('copysign symbolic')
    return I.mkfloat(math.copysign(float(a[0]), float(a[1])))
@ext('llvm.minnum.f64', 'fmin')
def _fmin(I, a):
    if isinstance(a[0], RV) or isinstance(a[1], RV): return a[0] if I.decide(R.cmp(a[0], a[1], 'le')) else a[1]
    return min(a[0], a[1])
@ext('llvm.maxnum.f64', 'fmax')
def _fmax(I, a):
    if isinstance(a[0], RV) or isinstance(a[1], RV): return a[0] if I.decide(R.cmp(a[0], a[1], 'ge')) else a[1]
    return max(a[0], a[1])
@ext('llvm.umul.with.overflow.i64')
def _umulo(I, a):
    if isinstance(a[0], int) and isinstance(a[1], int):
        r = a[0] * a[1]; return [mask(r, 64), 1 if r >> 64 else 0]
    if any(isinstance(x, SV) and z3.is_int(x.e) for x in a):
        x = to_int(a[0], 64, False); y = to_int(a[1], 64, False); return [sv(x * y), sv(x * y >= (1 << 64))]
    x = z3.ZeroExt(64, to_bv(a[0], 64)); y = z3.ZeroExt(64, to_bv(a[1], 64)); r = x * y
    return [sv(z3.Extract(63, 0, r)), sv(z3.Extract(127, 64, r) != 0)]
@ext('llvm.uadd.with.overflow.i64')
def _uaddo(I, a):
    if isinstance(a[0], int) and isinstance(a[1], int):
        r = a[0] + a[1]; return [mask(r, 64), 1 if r >> 64 else 0]
    x = z3.ZeroExt(1, to_bv(a[0], 64)); y = z3.ZeroExt(1, to_bv(a[1], 64)); r = x + y
    return [sv(z3.Extract(63, 0, r)), sv(z3.Extract(64, 64, r) == 1)]
@extp('llvm.smax.', 'llvm.smin.', 'llvm.umax.', 'llvm.umin.')
def _minmax_unsupported(I, a):
    raise Unsupported('integer min/max intrinsic')
@extp('llvm.abs.')
def _iabs(I, a):
    raise Unsupported('integer abs intrinsic')
@extp('llvm.ctlz', 'llvm.cttz', 'llvm.ctpop', 'llvm.bswap')
def _bits(I, a):
    raise Unsupported('bit-count intrinsic')

def _trans1(name, rfn, pyfn, exact=None):
    def h(I, a):
        x = a[0]
        if isinstance(x, RV):
            if rfn is None: raise Unsupported(name + ' of a symbolic real')
            return rfn(x)
        if isinstance(x, FB): raise Unsupported(name + ' of opaque bits')
        if isinstance(x, Fraction):
            if exact is not None:
                r = exact(x)
                if r is not None: return r
            if I.fmode == 'exact' and rfn is not None and I.ext.get('concrete_irrational') != 'host': return rfn(RV.const(x))
        try: return I.mkfloat(pyfn(float(x)))
        except (ValueError, OverflowError): return float('nan') if name != 'exp' else INF
    return h
EXACT['exp'] = _trans1('exp', R.exp, math.exp, lambda x: Fraction(1) if x == 0 else None)
EXACT['log'] = _trans1('log', R.log, math.log, lambda x: Fraction(0) if x == 1 else None)
EXACT['acos'] = _trans1('acos', R.acos, math.acos, lambda x: Fraction(0) if x == 1 else None)
EXACT['asin'] = _trans1('asin', R.asin, math.asin, lambda x: Fraction(0) if x == 0 else None)
EXACT['sin'] = _trans1('sin', R.sin, math.sin, lambda x: Fraction(0) if x == 0 else None)
EXACT['cos'] = _trans1('cos', R.cos, math.cos, lambda x: Fraction(1) if x == 0 else None)
EXACT['llvm.exp.f64'] = EXACT['exp']; EXACT['llvm.log.f64'] = EXACT['log']; EXACT['llvm.sin.f64'] = EXACT['sin']; EXACT['llvm.cos.f64'] = EXACT['cos']
EXACT['tan'] = _trans1('tan', None, math.tan, lambda x: Fraction(0) if x == 0 else None)
EXACT['atan'] = _trans1('atan', None, math.atan, lambda x: Fraction(0) if x == 0 else None)
EXACT['tanh'] = _trans1('tanh', None, math.tanh, lambda x: Fraction(0) if x == 0 else None)
EXACT['sinh'] = _trans1('sinh', None, math.sinh, None); EXACT['cosh'] = _trans1('cosh', None, math.cosh, None)
EXACT['erf'] = _trans1('erf', None, math.erf, None); EXACT['erfc'] = _trans1('erfc', None, math.erfc, None)
EXACT['log10'] = _trans1('log10', None, math.log10, None)
@ext('atan2')
def _atan2(I, a):
    if isinstance(a[0], RV) or isinstance(a[1], RV): return R.atan2(a[0], a[1])
    if I.fmode == 'exact' and isinstance(a[0], Fraction) and isinstance(a[1], Fraction) and I.ext.get('concrete_irrational') != 'host':
        if a[0] == 0 and a[1] > 0: return Fraction(0)
        return R.atan2(RV.const(a[0]), RV.const(a[1]))
    return I.mkfloat(math.atan2(float(a[0]), float(a[1])))
@ext('pow', 'llvm.pow.f64')
def _pow(I, a):
    x, y = a
    if isinstance(y, Fraction) and y.denominator == 1 and abs(y.numerator) <= 64:
        if isinstance(x, RV): return R.powi(x, y.numerator)
        if isinstance(x, Fraction):
            if x == 0 and y < 0: return INF
            return x ** y.numerator
    if isinstance(x, RV) or isinstance(y, RV): return R.powr(x, y)
    if isinstance(x, FB) or isinstance(y, FB): raise Unsupported('pow on opaque bits')
    if I.fmode == 'exact' and isinstance(x, Fraction) and isinstance(y, Fraction) and I.ext.get('concrete_irrational') != 'host':
        if y == Fraction(1, 2): return _sqrt(I, [x])
        return R.powr(RV.const(x), RV.const(y))
    try: return I.mkfloat(math.pow(float(x), float(y)))
    except (ValueError, OverflowError, ZeroDivisionError): return float('nan')
@ext('llvm.powi.f64.i32', 'llvm.powi.f64')
def _powi(I, a):
    x, k = a; k = sext(conc(I, k, 'powi exponent'), 32)
    if isinstance(x, RV): return R.powi(x, k)
    if isinstance(x, Fraction): return x ** k if not (x == 0 and k < 0) else INF
    return I.mkfloat(float(x) ** k)
@ext('ldexp')
def _ldexp(I, a): return I.mkfloat(math.ldexp(float(a[0]), sext(a[1], 32)))
@ext('__isnan', 'isnan')
def _isnan(I, a): return 1 if isinstance(a[0], float) and a[0] != a[0] else 0
@ext('__isinf', 'isinf')
def _isinf(I, a): return 1 if isinstance(a[0], float) and a[0] in (INF, -INF) else 0
@ext('__finite', 'finite')
def _isfinite(I, a): return 0 if isinstance(a[0], float) and (a[0] != a[0] or a[0] in (INF, -INF)) else 1

# ------------------------------------------------------------------ iostream support (see support/ioshim.cpp)
@ext('_ZSt9use_facetISt5ctypeIcEERKT_RKSt6locale')
def _uf_ctype(I, a):
    if 'ctype' not in I.ext: I.ext['ctype'] = I.call('verif_make_ctype', [])
    return I.ext['ctype']
@extp('_ZSt9use_facetISt7num_get')
def _uf_ng(I, a): return I.gptr('verif_num_get')
@extp('_ZSt9use_facetISt7num_put')
def _uf_np(I, a): return I.gptr('verif_num_put')
@extp('_ZSt9use_facetISt7codecvt')
def _uf_cc(I, a):
    if 'codecvt' not in I.ext: I.ext['codecvt'] = I.call('verif_make_codecvt', [])
    return I.ext['codecvt']
@extp('_ZSt9has_facet')
def _hf(I, a): return 1
@ext('_ZNKSt11__use_cacheISt16__numpunct_cacheIcEEclERKSt6locale')
def _npc(I, a):
    if 'npc' not in I.ext:
        I.call('verif_init_npc', []); I.ext['npc'] = I.gptr('verif_npc')
    return I.ext['npc']
TOKEN_ESC = 27
@extp('_ZSt16__convert_from_v')
def _cfv(I, a):
    # int __convert_from_v(const __c_locale&, char* out, int size, const char* fmt, ...)
    fmt = I.cstr(a[3]); rest = a[4:]
    v = rest[-1]
    if isinstance(v, (RV, FB, SV)):
        # in-band token for a symbolic number (DESIGN.md 3.5)
        out = new_token(I, v)
    else:
        pyfmt = fmt
        if '*' in fmt:
            stars = fmt.count('*');
            for s_ in rest[:stars]: pyfmt = pyfmt.replace('*', str(sext(s_, 32)), 1)
        pyfmt = pyfmt.replace('L', '')
        out = (pyfmt % float(v)).encode()
    size = a[2]
    n = min(len(out), size - 1) if size > 0 else 0
    if len(out) < size:
        I.write_bytes(a[1], list(out) + [0])
    return len(out)
@extp('_ZSt14__convert_to_vIdE', '_ZSt14__convert_to_vIeE', '_ZSt14__convert_to_vIfE')
def _ctv(I, a):
    # void __convert_to_v(const char* s, double& v, ios_base::iostate& err, const __c_locale&)
    txt = I.cstr(a[0])
    if txt.startswith('\x1b') and txt.endswith('\x1b') and len(txt) > 2:
        I.store(a[1], I.ext['tokens'][int(txt[1:-1])], 8); return None
    try:
        v = float(txt)
        if v in (INF, -INF) and 'inf' not in txt.lower():
            I.store(a[1], v if I.fmode != 'exact' else v, 8); I.store(a[2], 4, 4)   # overflow: failbit, value = +-HUGE_VAL
        else: I.store(a[1], I.mkfloat(v), 8)
    except ValueError:
        I.store(a[1], I.mkfloat(0.0), 8); I.store(a[2], 4, 4)
    return None
@ext('_ZNSt6locale5facet15_S_get_c_localeEv', '__uselocale', '_ZNSt6locale5facet13_S_get_c_nameEv')
def _cloc(I, a): return NULL
@ext('_ZNSt6locale5facetD2Ev', '_ZNKSt5ctypeIcE13_M_widen_initEv', '_ZNSt6locale5facetD1Ev', '_ZNSt6locale5facetD0Ev', '_ZNSt8ios_base4InitC1Ev',
     '_ZNSt8ios_base4InitD1Ev', '_ZNSt6locale5facet19_S_destroy_c_localeERP15__locale_struct', '_ZNSt6locale5facet18_S_create_c_localeERP15__locale_structPKcS2_')
def _none(I, a): return None
@ext('_ZNKSt6locale2id5_M_idEv')
def _locid(I, a): return 0
@ext('_ZNSt6locale7classicEv')
def _classic(I, a):
    if 'classic_locale' not in I.ext: I.ext['classic_locale'] = I.alloc(8, 'classic_locale', 'global')
    return I.ext['classic_locale']

# ------------------------------------------------------------------ RTTI: __dynamic_cast over the IR's type_info objects
def _ti_name(I, ti):
    return I.objs[ti[0]].name
def _bases(I, ti):
    """list of (base type_info ptr, offset, is_virtual) for a type_info object"""
    vt = I.load(ti, 8, 'ptr')       # vtable pointer of the type_info object -> which __class_type_info flavour
    vn = I.objs[vt[0]].name if isinstance(vt, tuple) and isinstance(vt[0], int) and vt[0] else ''
    if 'si_class_type_info' in vn:
        return [(I.load((ti[0], ti[1] + 16), 8, 'ptr'), 0, False)]
    if 'vmi_class_type_info' in vn:
        n = I.load((ti[0], ti[1] + 20), 4, 'i32'); out = []
        for i in range(n):
            b = I.load((ti[0], ti[1] + 24 + 16 * i), 8, 'ptr'); fl_ = _ival(I.load((ti[0], ti[1] + 32 + 16 * i), 8, 'i64'))
            out.append((b, sext(fl_, 64) >> 8, bool(fl_ & 1)))
        return out
    return []
def _ival(x):
    if isinstance(x, tuple): return 0 if x == NULL else (x[1] if x[0] == 'int' else 0)
    return x
@ext('__dynamic_cast')
def _dyncast(I, a):
    sub, src_ti, dst_ti, hint = a
    if sub == NULL: return NULL
    vptr = I.load(sub, 8, 'ptr')
    off_to_top = sext(_ival(I.load((vptr[0], vptr[1] - 16), 8, 'i64')), 64)
    mdt = I.load((vptr[0], vptr[1] - 8), 8, 'ptr')      # most-derived type_info
    whole = (sub[0], sub[1] + off_to_top)
    found = []
    def walk(ti, objp):
        if ti == dst_ti: found.append(objp)
        for (b, off, virt) in _bases(I, ti):
            if virt:
                vp = I.load(objp, 8, 'ptr'); voff = sext(_ival(I.load((vp[0], vp[1] + off), 8, 'i64')), 64)
                walk(b, (objp[0], objp[1] + voff))
            else: walk(b, (objp[0], objp[1] + off))
    walk(mdt, whole)
    uniq = []
    for f in found:
        if f not in uniq: uniq.append(f)
    if len(uniq) == 1: return uniq[0]
    return NULL

# ------------------------------------------------------------------ harness API
def _name(I, p): return I.cstr(p)
def _record(I, kind, label, status, detail=None):
    I.results.append({'kind': kind, 'label': label, 'status': status, 'detail': detail})

@ext('verif_is_symbolic')
def _is_sym(I, a): return 0 if I.inputs is not None else 1
@ext('verif_sym_double', 'verif_sym_double_ad')
def _sym_double(I, a, ad=None):
    nm = _name(I, a[0])
    if I.inputs is not None:
        v = I.inputs.real(nm)
        return I.mkfloat(float(v)) if I.fmode != 'exact' else v
    I.syms[nm] = ('real', z3.Real(nm))
    return RV.var(nm, ad=False)
@ext('verif_sym_double_ad')
def _sym_double_ad(I, a):
    nm = _name(I, a[0])
    if I.inputs is not None: return _sym_double(I, a)
    I.syms[nm] = ('real', z3.Real(nm)); I.ext.setdefault('ad_vars', []).append(nm)
    return RV.var(nm, ad=True)
@ext('verif_ad_seed')
def _ad_seed(I, a):
    v = a[0]; nm = _name(I, a[1])
    if I.inputs is not None: return v
    r = R.lift(v).notan() if isinstance(v, RV) else RV.const(v)
    r.tan = {nm: RV({R.E: R.ONE})}
    I.ext.setdefault('ad_vars', []).append(nm)
    return r
@ext('verif_sym_int')
def _sym_int(I, a):
    nm = _name(I, a[0]); lo = sext(a[1], 64); hi = sext(a[2], 64)
    if I.inputs is not None: return mask(I.inputs.integer(nm, lo, hi), 64)
    v = z3.Int(nm); I.syms[nm] = ('int', v); I.add_pc(z3.And(v >= lo, v <= hi))
    return SV(v)
@ext('verif_sym_i64', 'verif_sym_u64')
def _sym_i64(I, a):
    nm = _name(I, a[0])
    if I.inputs is not None: return mask(I.inputs.small(nm, 7), 64)
    v = z3.BitVec(nm, 64); I.syms[nm] = ('bv64', v); return SV(v)
@ext('verif_sym_i32')
def _sym_i32(I, a):
    nm = _name(I, a[0])
    if I.inputs is not None: return mask(I.inputs.small(nm, 7), 32)
    v = z3.BitVec(nm, 32); I.syms[nm] = ('bv32', v); return SV(v)
@ext('verif_sym_u8')
def _sym_u8(I, a):
    nm = _name(I, a[0])
    if I.inputs is not None: return mask(I.inputs.small(nm, 256), 8)
    v = z3.BitVec(nm, 8); I.syms[nm] = ('bv8', v); return SV(v)
@ext('verif_sym_bool')
def _sym_bool(I, a):
    nm = _name(I, a[0])
    if I.inputs is not None: return 1 if I.inputs.small(nm, 2) else 0
    v = z3.Bool(nm); I.syms[nm] = ('bool', v); return SV(v)
@ext('verif_sym_bytes')
def _sym_bytes(I, a):
    nm = _name(I, a[2]); n = a[1]
    for i in range(n):
        k = '%s_%d' % (nm, i)
        if I.inputs is not None: I.store((a[0][0], a[0][1] + i), I.inputs.small(k, 256) & 255, 1)
        else:
            v = z3.BitVec(k, 8); I.syms[k] = ('bv8', v); I.store((a[0][0], a[0][1] + i), SV(v), 1)
    return None
@ext('verif_choice')
def _choice(I, a):
    nm = _name(I, a[0]); n = a[1]
    if I.inputs is not None: v = I.inputs.small(nm, n)
    else:
        # n-way fork recorded as a binary search over fresh booleans: log2(n) decisions, so that the explorer learns
        # about all alternatives after one path instead of after a chain of n paths
        lo, hi = 0, n
        while hi - lo > 1:
            mid = (lo + hi) // 2
            if I.decide(z3.Bool('%s<%d#%d' % (nm, mid, I.ext.setdefault('choice_n', 0)))): hi = mid
            else: lo = mid
        I.ext['choice_n'] = I.ext.get('choice_n', 0) + 1
        v = lo
    I.choices[nm] = v
    return v
@ext('verif_assume')
def _v_assume(I, a):
    c = a[0]
    if isinstance(c, int):
        if not (c & 1): raise Vacuous('assumption false on this path')
        return None
    e = to_bool(c)
    if not I.feasible(e): raise Vacuous('assumption infeasible on this path: ' + str(z3.simplify(e))[:300])
    I.add_pc(e); return None
@ext('verif_stop')
def _v_stop(I, a): raise PathEnd()
@ext('verif_note')
def _v_note(I, a):
    I.notes.append(_name(I, a[0])); return None
@ext('verif_out_double')
def _out_d(I, a):
    nm = _name(I, a[0]); I.outs[nm] = a[1]; return None
@ext('verif_out_i64')
def _out_i(I, a):
    nm = _name(I, a[0]); v = a[1]
    I.outs[nm] = sext(v, 64) if isinstance(v, int) else v; return None
@ext('verif_out_str')
def _out_s(I, a):
    nm = _name(I, a[0]); I.outs[nm] = I.cstr(a[1]); return None
@ext('verif_reach')
def _v_reach(I, a):
    from . import explore
    explore.witness(I, _name(I, a[0])); return None
@ext('verif_assert')
def _v_assert(I, a):
    from . import explore
    explore.assert_bool(I, a[0], _name(I, a[1])); return None
@ext('verif_assert_eq')
def _v_assert_eq(I, a):
    from . import explore
    explore.assert_eq(I, a[0], a[1], _name(I, a[2])); return None
@ext('verif_assert_deriv')
def _v_assert_deriv(I, a):
    # verif_assert_deriv(double f, const char *var, double expected, const char *label):  d f / d var == expected
    from . import explore
    explore.assert_deriv(I, a[0], _name(I, a[1]), a[2], _name(I, a[3])); return None
@ext('verif_deriv')
def _v_deriv(I, a):
    # double verif_deriv(double f, const char *var): derivative of f with respect to an AD-seeded input, as computed
    # by forward-mode differentiation through the executed IR
    f = a[0]; nm = _name(I, a[1])
    if I.inputs is not None: return Fraction(0)
    if not isinstance(f, RV): return Fraction(0)
    return f.d_of(nm)
@ext('verif_is_integer')
def _v_isint(I, a):
    v = a[0]
    if isinstance(v, RV): return sv(z3.IsInt(v.expr()))
    if isinstance(v, (Fraction, int)): return 1 if Fraction(v).denominator == 1 else 0
    if isinstance(v, float): return 1 if v == v and v not in (INF, -INF) and v == math.floor(v) else 0
    raise Unsupported('verif_is_integer of %r' % (v,))
@ext('verif_logged_value')
def _v_logged(I, a):
    # double verif_logged_value(const char *marker, int *found): the number printed right after 'marker' in the most recent log message containing it
    marker = _name(I, a[0])
    for msg in reversed(I.ext.get('log', [])):
        i = msg.find(marker)
        if i < 0: continue
        rest = msg[i + len(marker):].lstrip()
        if rest.startswith('\x1b'):
            j = rest.find('\x1b', 1); val = I.ext['tokens'][int(rest[1:j])]
        else:
            tok = rest.split()[0] if rest.split() else ''
            try: val = I.mkfloat(float(tok))
            except ValueError: continue
        I.store(a[1], 1, 4)
        if isinstance(val, SV): val = I.conv('sitofp', val, 'f64', 'i64', 'log')
        return val
    I.store(a[1], 0, 4)
    return I.mkfloat(0.0)
@ext('verif_token_int')
def _v_tok_int(I, a):
    nm = _name(I, a[0]); lo = sext(a[1], 64); hi = sext(a[2], 64)
    if I.inputs is not None: return I.new_cstr(str(I.inputs.integer(nm, lo, hi)), 'token')
    v = z3.Int(nm); I.syms[nm] = ('int', v); I.add_pc(z3.And(v >= lo, v <= hi))
    return I.new_cstr(new_token(I, SV(v)).decode('latin1'), 'token')
@ext('verif_token_double')
def _v_tok_double(I, a):
    nm = _name(I, a[0])
    if I.inputs is not None: return I.new_cstr(repr(float(I.inputs.real(nm))), 'token')
    I.syms[nm] = ('real', z3.Real(nm))
    return I.new_cstr(new_token(I, RV.var(nm)).decode('latin1'), 'token')
@ext('verif_param')
def _v_param(I, a):
    nm = _name(I, a[0]); v = I.ext.get('params', {}).get(nm)
    if v is None: return a[1]
    I.choices['param.' + nm] = v
    return mask(int(v), 64)
@ext('verif_need_module')
def _v_need_module(I, a): return None
@ext('verif_log_accesses')
def _v_log(I, a):
    I.logging = bool(a[0]); return None

# ------------------------------------------------------------------ file-system model (DESIGN.md 3.5): in-memory files + operation trace
class FS:
    def __init__(self):
        self.files = {}      # name -> list of byte values
        self.trace = []      # (op, name, extra)
        self.handles = {}    # id -> dict(name, pos, mode)
        self.next_id = 1
        self.fail = {}       # op -> remaining forced failures (fault injection)
def _fs(I):
    if I.fs is None: I.fs = FS()
    return I.fs
def _set_errno(I, v):
    p = _errno(I, []); I.store(p, v, 4)
ENOENT = 2
@ext('access')
def _access(I, a):
    fs = _fs(I); nm = I.cstr(a[0]); fs.trace.append(('access', nm, None))
    if nm in fs.files: return 0
    _set_errno(I, ENOENT); return mask(-1, 32)
@ext('rename')
def _rename(I, a):
    fs = _fs(I); old = I.cstr(a[0]); new = I.cstr(a[1])
    if fs.fail.get('rename', 0) > 0:
        fs.fail['rename'] -= 1; fs.trace.append(('rename-failed', old, new)); _set_errno(I, 13); return mask(-1, 32)
    if old not in fs.files:
        fs.trace.append(('rename-failed', old, new)); _set_errno(I, ENOENT); return mask(-1, 32)
    fs.files[new] = fs.files.pop(old); fs.trace.append(('rename', old, new))
    return 0
@ext('remove', 'unlink')
def _remove(I, a):
    fs = _fs(I); nm = I.cstr(a[0])
    if nm in fs.files:
        del fs.files[nm]; fs.trace.append(('remove', nm, None)); return 0
    _set_errno(I, ENOENT); return mask(-1, 32)
@ext('_ZNSt12__basic_fileIcEC1EP15pthread_mutex_t', '_ZNSt12__basic_fileIcEC2EP15pthread_mutex_t')
def _bf_ctor(I, a):
    I.store(a[0], NULL, 8); I.store((a[0][0], a[0][1] + 8), 0, 1); return None
@ext('_ZNSt12__basic_fileIcED1Ev', '_ZNSt12__basic_fileIcED2Ev')
def _bf_dtor(I, a):
    h = I.load(a[0], 8, 'ptr')
    if h != NULL: _bf_close(I, a)
    return None
def _bf_handle(I, this):
    h = I.load(this, 8, 'ptr')
    if h == NULL: return None
    return _fs(I).handles.get(h[1])
@ext('_ZNKSt12__basic_fileIcE7is_openEv')
def _bf_is_open(I, a): return 0 if I.load(a[0], 8, 'ptr') == NULL else 1
@ext('_ZNSt12__basic_fileIcE4openEPKcSt13_Ios_Openmodei')
def _bf_open(I, a):
    fs = _fs(I); nm = I.cstr(a[1]); mode = a[2]
    if I.load(a[0], 8, 'ptr') != NULL: return NULL
    rd = bool(mode & 8); wr = bool(mode & 16); app = bool(mode & 1); trunc = bool(mode & 32)
    if fs.fail.get('open', 0) > 0:
        fs.fail['open'] -= 1; fs.trace.append(('open-failed', nm, mode)); return NULL
    if rd and not wr and nm not in fs.files:
        fs.trace.append(('open-failed', nm, mode)); _set_errno(I, ENOENT); return NULL
    if wr and (trunc or not (rd or app)):
        fs.files[nm] = []; fs.trace.append(('open-trunc', nm, mode))
    elif wr:
        fs.files.setdefault(nm, []); fs.trace.append(('open', nm, mode))
    else:
        fs.trace.append(('open-read', nm, mode))
    hid = fs.next_id; fs.next_id += 1
    fs.handles[hid] = {'name': nm, 'pos': len(fs.files[nm]) if app else 0, 'mode': mode}
    I.store(a[0], ('int', hid), 8)
    return a[0]
@ext('_ZNSt12__basic_fileIcE5closeEv')
def _bf_close(I, a):
    fs = _fs(I); h = _bf_handle(I, a[0])
    if h is None: return NULL
    fs.trace.append(('close' if (h['mode'] & 16) else 'close-read', h['name'], None))
    hid = I.load(a[0], 8, 'ptr')[1]; fs.handles.pop(hid, None)
    I.store(a[0], NULL, 8)
    return a[0]
def _bf_write(I, h, p, n):
    fs = _fs(I)
    bs = I.read_bytes(p, n) if n else []
    data = fs.files.setdefault(h['name'], [])
    pos = h['pos']
    if pos > len(data): data.extend([0] * (pos - len(data)))
    data[pos:pos + n] = bs; h['pos'] = pos + n
    fs.trace.append(('write', h['name'], n))
@ext('_ZNSt12__basic_fileIcE6xsputnEPKcl')
def _bf_xsputn(I, a):
    h = _bf_handle(I, a[0])
    if h is None: return mask(-1, 64)
    n = conc(I, a[2], 'write length'); _bf_write(I, h, a[1], n); return n
@ext('_ZNSt12__basic_fileIcE8xsputn_2EPKclS2_l')
def _bf_xsputn2(I, a):
    h = _bf_handle(I, a[0])
    if h is None: return mask(-1, 64)
    n1 = conc(I, a[2], 'write length'); n2 = conc(I, a[4], 'write length')
    _bf_write(I, h, a[1], n1); _bf_write(I, h, a[3], n2); return n1 + n2
@ext('_ZNSt12__basic_fileIcE6xsgetnEPcl')
def _bf_xsgetn(I, a):
    fs = _fs(I); h = _bf_handle(I, a[0])
    if h is None: return mask(-1, 64)
    n = conc(I, a[2], 'read length'); data = fs.files.get(h['name'], [])
    k = max(0, min(n, len(data) - h['pos']))
    if k: I.write_bytes(a[1], data[h['pos']:h['pos'] + k])
    h['pos'] += k; fs.trace.append(('read', h['name'], k))
    return k
@ext('_ZNSt12__basic_fileIcE7seekoffElSt12_Ios_Seekdir')
def _bf_seekoff(I, a):
    fs = _fs(I); h = _bf_handle(I, a[0])
    if h is None: return mask(-1, 64)
    off = sext(a[1], 64); way = a[2]; size = len(fs.files.get(h['name'], []))
    base = 0 if way == 0 else (h['pos'] if way == 1 else size)
    np_ = base + off
    if np_ < 0: return mask(-1, 64)
    h['pos'] = np_; return np_
@ext('_ZNSt12__basic_fileIcE9showmanycEv')
def _bf_showmanyc(I, a):
    fs = _fs(I); h = _bf_handle(I, a[0])
    if h is None: return 0
    return max(0, len(fs.files.get(h['name'], [])) - h['pos'])
@ext('_ZNSt12__basic_fileIcE4syncEv')
def _bf_sync(I, a): return 0
@ext('_ZNSt7codecvtIcc11__mbstate_tEC2Em', '_ZNSt7codecvtIcc11__mbstate_tEC1Em', '_ZNSt7codecvtIcc11__mbstate_tED2Ev', '_ZNSt7codecvtIcc11__mbstate_tED1Ev', '_ZNSt7codecvtIcc11__mbstate_tED0Ev')
def _codecvt_cd(I, a): return None

# harness access to the file-system model
@ext('verif_fs_exists')
def _v_fs_exists(I, a): return 1 if I.cstr(a[0]) in _fs(I).files else 0
@ext('verif_fs_complete')
def _v_fs_complete(I, a):
    fs = _fs(I); nm = I.cstr(a[0])
    if nm not in fs.files: return 0
    cur = nm; complete = None
    # walk the trace backwards following renames
    for (op, n1, extra) in reversed(fs.trace):
        if op == 'rename' and extra == cur: cur = n1; continue
        if n1 != cur: continue
        if op == 'close': return 1 if complete is None else complete
        if op in ('write', 'open', 'open-trunc'): return 0
    return 1
@ext('verif_fs_size')
def _v_fs_size(I, a): return len(_fs(I).files.get(I.cstr(a[0]), []))
@ext('verif_fs_put')
def _v_fs_put(I, a):
    # void verif_fs_put(const char *name, const char *data, long n): create a file with the given content
    n = a[2]; _fs(I).files[I.cstr(a[0])] = I.read_bytes(a[1], n) if n else []; return None
@ext('verif_fs_truncate')
def _v_fs_trunc(I, a):
    fs = _fs(I); nm = I.cstr(a[0]); n = conc(I, a[1], 'truncation offset')
    if nm in fs.files: fs.files[nm] = fs.files[nm][:n]
    return None
@ext('verif_fs_fail')
def _v_fs_fail(I, a):
    _fs(I).fail[I.cstr(a[0])] = a[1]; return None
@ext('verif_fs_trace_begin')
def _v_fs_tb(I, a):
    _fs(I).trace = []; return None
@ext('verif_fs_crash_consistent')
def _v_fs_cc(I, a):
    """int verif_fs_crash_consistent(const char *name, const char *backup): replays the recorded operation trace and, at every crash point
    (before each operation, and inside each write), asks whether name or backup holds a complete state.  A file is complete when it was
    closed after its last truncating open and all the writes in between.  Returns the number of crash points at which neither is complete
    (counted only once a first complete state exists)."""
    fs = _fs(I); name = I.cstr(a[0]); backup = I.cstr(a[1])
    state = dict(I.ext.get('fs_initial_complete', {}))     # name -> complete?
    exists = set(state)
    have_first = any(state.values())
    bad = 0; points = 0; detail = []
    def crash_point(tag):
        nonlocal bad, points
        if not have_first: return
        points += 1
        if not ((name in exists and state.get(name)) or (backup in exists and state.get(backup))):
            bad += 1; detail.append(tag)
    for i, (op, nm, extra) in enumerate(fs.trace):
        crash_point('before %d:%s %s' % (i, op, nm))
        if op == 'open-trunc': exists.add(nm); state[nm] = False
        elif op == 'open': exists.add(nm); state[nm] = state.get(nm, False) and False
        elif op == 'write':
            if extra and extra > 1: crash_point('inside %d:write %s' % (i, nm))
        elif op == 'close':
            state[nm] = True
            if nm == name or nm == backup: have_first = True
        elif op == 'rename':
            if nm in exists:
                exists.discard(nm); exists.add(extra); state[extra] = state.pop(nm, False)
        elif op == 'remove': exists.discard(nm); state.pop(nm, None)
    crash_point('after the last operation')
    I.ext['fs_crash_report'] = {'points': points, 'bad': bad, 'detail': detail[:6], 'trace': [(o, n) for (o, n, e) in fs.trace][:40]}
    I.notes.append('crash points examined: %d, without a complete state: %d %s' % (points, bad, (detail[:4], [(o, n) for (o, n, e) in fs.trace][:30]) if bad else ''))
    return bad

@ext('strtol', 'strtoll', 'strtoul', 'strtoull', '__isoc23_strtol', '__isoc23_strtoll')
def _strtol(I, a):
    # concrete strings only (harness-side parsing of announced counts)
    p = a[0]; base = a[2] if len(a) > 2 else 10
    if base not in (0, 10): raise Unsupported('strtol base %r' % (base,))
    i = 0; bs = []
    while True:
        b = I.load((p[0], p[1] + i), 1, 'i8')
        if isinstance(b, SV): raise Unsupported('strtol of symbolic text')
        if b == 0: break
        bs.append(b); i += 1
        if i > 64: break
    t = bytes(bs).decode('latin1'); j = 0
    while j < len(t) and t[j] in ' \t\n\r\f\v': j += 1
    k = j
    if k < len(t) and t[k] in '+-': k += 1
    d0 = k
    while k < len(t) and t[k].isdigit(): k += 1
    v = int(t[j:k]) if k > d0 else 0
    if k == d0: k = 0
    if a[1] != NULL: I.store(a[1], (p[0], p[1] + k), 8)
    return mask(v, 64)

@ext('strtod', 'strtold', 'atof', '__isoc23_strtod')
def _strtod(I, a):
    # concrete text or a single in-band token (symbolic number), leading white space skipped; endptr is set
    import re
    p = a[0]
    if p == NULL: raise Monitor('null-deref', 'strtod(NULL)')
    txt = I.cstr(p); j = 0
    while j < len(txt) and txt[j] in ' \t\n\r\f\v': j += 1
    end = 0; val = I.mkfloat(0.0)
    m = re.match(r'\x1b(\d+)\x1b', txt[j:])
    if m:
        val = I.ext['tokens'][int(m.group(1))]; end = j + m.end()
        if isinstance(val, SV): raise Unsupported('strtod of an integer token')
    else:
        m = re.match(r'[+-]?(?:(?:\d+\.?\d*|\.\d+)(?:[eE][+-]?\d+)?|inf(?:inity)?|nan)', txt[j:], re.I)
        if m:
            t = m.group(0); end = j + m.end()
            v = float(t)
            val = I.mkfloat(v) if v == v and v not in (INF, -INF) else v
    if len(a) > 1 and a[1] != NULL: I.store(a[1], (p[0], p[1] + end), 8)
    return val

def _split_words(bs):
    words = []; cur = bytearray()
    for b in bs:
        if isinstance(b, SV): raise Unsupported('symbolic byte in a text to compare')
        if b in (32, 9, 10, 13):
            if cur: words.append(bytes(cur)); cur = bytearray()
        else: cur.append(b)
    if cur: words.append(bytes(cur))
    return words
def _word_value(I, w):
    import re
    m = re.fullmatch(rb'\x1b(\d+)\x1b', w)
    if m: return I.ext['tokens'][int(m.group(1))]
    try: return Fraction(w.decode('latin1'))
    except (ValueError, ZeroDivisionError): pass
    try:
        f = float(w.decode('latin1'))
        return f
    except ValueError: return None
@ext('verif_text_equal')
def _v_text_equal(I, a):
    """void verif_text_equal(const char *a, long na, const char *b, long nb, const char *label): the two texts consist of the same
    words; words that differ as bytes must both be numbers (printed digits or in-band tokens) with provably equal values"""
    from . import explore
    label = _name(I, a[4])
    if I.inputs is not None: return None
    A = _split_words(I.read_bytes(a[0], a[1]) if a[1] else []); B = _split_words(I.read_bytes(a[2], a[3]) if a[3] else [])
    if len(A) != len(B):
        I.notes.append('%s: %d words against %d' % (label, len(A), len(B)))
        explore.assert_bool(I, 0, label + '.same_structure'); return None
    nnum = 0; bad = None
    for k, (wa, wb) in enumerate(zip(A, B)):
        if wa == wb: continue
        va = _word_value(I, wa); vb = _word_value(I, wb)
        if va is None or vb is None:
            bad = (k, wa, wb); break
        nnum += 1
        if isinstance(va, SV) or isinstance(vb, SV):
            ea = va.e if isinstance(va, SV) else z3.IntVal(int(va)); eb = vb.e if isinstance(vb, SV) else z3.IntVal(int(vb))
            if z3.is_bv(ea) != z3.is_bv(eb): raise Unsupported('integer tokens of different sorts')
            explore.assert_bool(I, sv(ea == eb), label + '.numbers')
        else:
            explore.prove_equal(I, va, vb, label + '.numbers')
    if bad is not None:
        I.notes.append('%s: word %d differs: %r / %r' % (label, bad[0], bad[1][:40], bad[2][:40]))
        explore.assert_bool(I, 0, label + '.same_structure')
    else:
        explore.assert_bool(I, 1, label + '.same_structure')
    return None

# ------------------------------------------------------------------ OpenMP runtime: logical threads (DESIGN.md 3.3 / C12)
# A parallel region is executed by T logical threads one after the other (a legal schedule of a region in which nothing follows a barrier);
# every memory access inside the region is recorded with its thread and whether it happened inside an atomic operation or under a lock.
# At the end of the region two accesses of different threads to the same byte, one of them a write, not both protected, are a data race:
# if there is none, every interleaving and every assignment of the same work items computes the same state (Bernstein's conditions).
def _omp_T(I): return int(I.ext.get('omp_threads', 8))
def _race_scan(I, log):
    RU, WU, RP, WP = 1, 2, 4, 8
    acc = {}
    for (ob, off, size, rw, tid, prot) in log:
        if tid == 0: continue
        bit = (WP if prot else WU) if rw == 'w' else (RP if prot else RU)
        for b in range(off, off + size):
            d = acc.get((ob, b))
            if d is None: acc[(ob, b)] = {tid: bit}
            else: d[tid] = d.get(tid, 0) | bit
    races = []
    for (ob, b), d in acc.items():
        if len(d) < 2: continue
        ts = list(d.items()); hit = False
        for i in range(len(ts)):
            for j in range(i + 1, len(ts)):
                (t1, f1), (t2, f2) = ts[i], ts[j]
                # some access x of t1 and y of t2, one of them a write, not both protected
                if (f1 & WU) or (f2 & WU) or ((f1 & WP) and (f2 & RU)) or ((f2 & WP) and (f1 & RU)):
                    races.append((ob, b, t1, t2)); hit = True; break
            if hit: break
        if len(races) > 20: break
    return races
@ext('__kmpc_fork_call')
def _kmpc_fork(I, a):
    # void __kmpc_fork_call(ident_t *loc, kmp_int32 argc, kmpc_micro microtask, ...)
    fn = a[2]
    if not (isinstance(fn, tuple) and fn[0] == 'fn'): raise Unsupported('fork_call of a non-function')
    if I.ext.get('omp_in_region'): raise Unsupported('nested parallel region')
    T = _omp_T(I); I.ext['omp_in_region'] = True; I.ext['omp_single_taken'] = set()
    lg0, log0 = I.logging, I.log
    I.logging = True; I.log = []
    order = list(range(T))
    if I.ext.get('omp_reverse'): order.reverse()
    try:
        for t in order:
            I.tid = t + 1
            g = I.alloc(4, 'omp.gtid', 'stack'); b = I.alloc(4, 'omp.btid', 'stack')
            lgx = I.logging; I.logging = False; I.store(g, t + 1, 4); I.store(b, t, 4); I.logging = lgx
            I.call(fn[1], [g, b] + list(a[3:]))
    finally:
        I.tid = 0; I.ext['omp_in_region'] = False
    region = I.log; I.logging, I.log = lg0, log0
    I.ext['omp_regions'] = I.ext.get('omp_regions', 0) + 1
    I.ext['omp_accesses'] = I.ext.get('omp_accesses', 0) + len(region)
    races = _race_scan(I, region)
    if races:
        ob, b, t1, t2 = races[0]
        o = I.objs.get(ob)
        msg = 'logical threads %d and %d access byte %d of %s without synchronisation (one of them writes); %d conflicting bytes found' % (t1, t2, b, o.name if o else ob, len(races))
        I.ext.setdefault('races', []).append(msg); I.notes.append('data race: ' + msg)
        if I.inputs is None:
            # recorded as a failed obligation; the path goes on so that the effect on the results is also seen
            from . import explore
            explore.assert_bool(I, 0, 'race:no_conflicting_access_in_parallel_region')
    return None
@ext('__kmpc_for_static_init_4', '__kmpc_for_static_init_4u')
def _kmpc_static_init(I, a, name=None):
    # (loc, gtid, schedtype, plastiter, plower, pupper, pstride, incr, chunk)
    wide = 8 if (I.ext.get('omp_wide')) else 4
    sched = a[2]; plast, plo, pup, pst = a[3], a[4], a[5], a[6]; incr = sext(a[7], 32) if wide == 4 else sext(a[7], 64)
    if incr != 1: raise Unsupported('omp for with increment %d' % incr)
    if sched not in (34, 33): raise Unsupported('omp schedule kind %d' % sched)
    lo = sext(I.load(plo, wide, 'i%d' % (wide * 8)), wide * 8); up = sext(I.load(pup, wide, 'i%d' % (wide * 8)), wide * 8)
    T = _omp_T(I); t = I.tid - 1; n = up - lo + 1
    if n <= 0:
        I.store(plast, 0, 4); return None
    small, extra = divmod(n, T)
    size = small + (1 if t < extra else 0)
    mylo = lo + t * small + min(t, extra); myup = mylo + size - 1
    I.store(plo, mask(mylo, wide * 8), wide); I.store(pup, mask(myup, wide * 8), wide)
    I.store(pst, mask(n, wide * 8), wide)
    I.store(plast, 1 if (size > 0 and myup == up) else 0, 4)
    return None
@ext('__kmpc_for_static_fini', '__kmpc_barrier', '__kmpc_push_num_threads', '__kmpc_end_single', 'omp_init_lock', 'omp_destroy_lock', '__kmpc_flush')
def _kmpc_nop(I, a): return None if True else 0
@ext('__kmpc_global_thread_num')
def _kmpc_gtid(I, a): return I.tid
@ext('omp_get_thread_num')
def _omp_tn(I, a): return max(0, I.tid - 1)
@ext('omp_get_max_threads', 'omp_get_num_threads', 'omp_get_num_procs')
def _omp_mt(I, a): return _omp_T(I)
@ext('__kmpc_single')
def _kmpc_single(I, a):
    # the single construct is executed by the logical thread selected by ext['omp_single_thread'] (default: the first to arrive)
    key = I.addr(a[0]) if isinstance(a[0], tuple) else 0
    want = I.ext.get('omp_single_thread')
    taken = I.ext.setdefault('omp_single_taken', set())
    if key in taken: return 0
    if want is None or want == I.tid - 1 or I.tid == 0:
        taken.add(key); return 1
    return 0
@ext('omp_set_lock', 'omp_set_nest_lock')
def _omp_set_lock(I, a):
    I.locks.add(I.addr(a[0])); return None
@ext('omp_unset_lock', 'omp_unset_nest_lock')
def _omp_unset_lock(I, a):
    I.locks.discard(I.addr(a[0])); return None
@ext('omp_test_lock')
def _omp_test_lock(I, a):
    I.locks.add(I.addr(a[0])); return 1
@ext('__kmpc_critical')
def _kmpc_crit(I, a):
    I.locks.add(('crit', I.addr(a[2]))); return None
@ext('__kmpc_end_critical')
def _kmpc_endcrit(I, a):
    I.locks.discard(('crit', I.addr(a[2]))); return None
@ext('__kmpc_reduce', '__kmpc_reduce_nowait', '__kmpc_end_reduce', '__kmpc_end_reduce_nowait')
def _kmpc_reduce(I, a): raise Unsupported('OpenMP reduction (OPES kernel sums are outside the claim)')
@ext('verif_omp_config')
def _v_omp_config(I, a):
    # void verif_omp_config(int threads, int single_thread, int reverse): logical thread count, which thread executes 'single' (-1: first), order of execution
    I.ext['omp_threads'] = a[0]; st = sext(a[1], 32); I.ext['omp_single_thread'] = None if st < 0 else st; I.ext['omp_reverse'] = bool(a[2]); return None
@ext('verif_omp_regions')
def _v_omp_regions(I, a): return I.ext.get('omp_regions', 0)
