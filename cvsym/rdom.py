# Exact-real domain ("R-mode") for the symbolic interpreter.
# A value is (sum_S c_S * prod_{g in S} g) / d  with c_S, d generator-free z3 Real terms (polynomials in the symbolic
# inputs and in the free symbols standing for transcendental calls); generators g are square roots of generator-free
# terms P_g (g*g == P_g, g >= 0).  Optional tangent dict: variable name -> RV (forward-mode AD through the executed IR).
import z3, struct
from fractions import Fraction

ZERO = z3.RealVal(0); ONE = z3.RealVal(1)
USE_SYMPY = True
E = frozenset()

class State:
    def __init__(self):
        self.gens = {}        # name -> (z3 var, P_g term)
        self.gen_by_arg = {}  # sexpr of P_g -> name
        self.trans = {}       # name -> (kind, args (tuple of RV), z3 var)
        self.trans_by_key = {}
        self.denoms = []      # z3 terms assumed non-zero (every executed symbolic division)
        self.denom_keys = set()
        self.axioms = []
        self.zero_div = None  # optional hook(den z3 term) -> True if the divisor is zero on this path (decided by forking)
        self.context = None   # callable returning the current path constraints (used for sign tests of factors)
        self.unify_queries = 0
        self.floor_n = 0
        self.floors = {}
        self.floor_const = {}
ST = State()
def reset():
    global ST
    ST = State()

class Unsupported(Exception): pass

def isz(t): return z3.is_rational_value(t) and t.numerator_as_long() == 0
def isone(t): return z3.is_rational_value(t) and t.numerator_as_long() == 1 and t.denominator_as_long() == 1
def M(a, b):
    if isz(a) or isz(b): return ZERO
    if isone(a): return b
    if isone(b): return a
    if z3.is_rational_value(a) and z3.is_rational_value(b):
        return z3.RatVal(a.numerator_as_long() * b.numerator_as_long(), a.denominator_as_long() * b.denominator_as_long())
    return a * b
def A(a, b):
    if isz(a): return b
    if isz(b): return a
    if z3.is_rational_value(a) and z3.is_rational_value(b):
        fr = Fraction(a.numerator_as_long(), a.denominator_as_long()) + Fraction(b.numerator_as_long(), b.denominator_as_long())
        return z3.RatVal(fr.numerator, fr.denominator)
    return a + b
def NEG(a):
    if isz(a): return ZERO
    if z3.is_rational_value(a): return z3.RatVal(-a.numerator_as_long(), a.denominator_as_long())
    return -a
def rat(x):
    if isinstance(x, float):
        if x != x or x in (float('inf'), float('-inf')): raise Unsupported('non-finite constant in exact-real arithmetic')
    fr = Fraction(x); return z3.RatVal(fr.numerator, fr.denominator)

class RV:
    __slots__ = ('n', 'd', 'tan')
    def __init__(self, n, d=ONE, tan=None):
        self.n = {S: c for S, c in n.items() if not isz(c)}; self.d = d; self.tan = tan
    @staticmethod
    def const(x): return RV({E: rat(x)})
    @staticmethod
    def var(name, ad=False):
        v = RV({E: z3.Real(name)})
        if ad: v.tan = {name: RV({E: ONE})}
        return v
    @staticmethod
    def term(t): return RV({E: t})
    def __bool__(self): raise TypeError('truth value of a symbolic real')
    def notan(self): return RV(dict(self.n), self.d)
    def is_const(self):
        return all(not S for S in self.n) and isone(self.d) and (not self.n or z3.is_rational_value(self.n.get(E, ZERO)))
    def const_value(self):
        c = self.n.get(E, ZERO); return Fraction(c.numerator_as_long(), c.denominator_as_long())
    def num_expr(self):
        tot = ZERO
        for S, c in self.n.items():
            t = c
            for g in sorted(S): t = M(t, ST.gens[g][0])
            tot = A(tot, t)
        return tot
    def expr(self):
        """plain z3 expression (with generator variables)"""
        tot = self.num_expr()
        return tot if isone(self.d) else tot / self.d
    def d_of(self, name):
        if self.tan is None: return RV({})
        return self.tan.get(name, RV({}))

def lift(x): return x if isinstance(x, RV) else RV.const(x)

def _addn(a, b, fa=ONE, fb=ONE):
    out = {}
    for S, c in a.items(): out[S] = M(c, fa)
    for S, c in b.items(): out[S] = A(out.get(S, ZERO), M(c, fb))
    return out
def _muln(a, b):
    out = {}
    for S1, c1 in a.items():
        for S2, c2 in b.items():
            c = M(c1, c2)
            for g in S1 & S2: c = M(c, ST.gens[g][1])
            S = S1 ^ S2
            out[S] = A(out.get(S, ZERO), c)
    return out

def _tan2(a, b, f):
    if a.tan is None and b.tan is None: return None
    ks = set(a.tan or ()) | set(b.tan or ())
    z = RV({})
    return {k: f((a.tan or {}).get(k, z), (b.tan or {}).get(k, z)) for k in ks}

def add(a, b, _t=True):
    a = lift(a); b = lift(b)
    if z3.eq(a.d, b.d): r = RV(_addn(a.n, b.n), a.d)
    else: r = RV(_addn(a.n, b.n, b.d, a.d), M(a.d, b.d))
    if not r.n: r.d = ONE
    if _t: r.tan = _tan2(a, b, lambda x, y: add(x, y, False))
    return r
def neg(a, _t=True):
    a = lift(a); r = RV({S: NEG(c) for S, c in a.n.items()}, a.d)
    if _t and a.tan is not None: r.tan = {k: neg(v, False) for k, v in a.tan.items()}
    return r
def sub(a, b, _t=True):
    a = lift(a); b = lift(b); r = add(a, neg(b, False), False)
    if _t: r.tan = _tan2(a, b, lambda x, y: sub(x, y, False))
    return r
def mul(a, b, _t=True):
    a = lift(a); b = lift(b); r = RV(_muln(a.n, b.n), M(a.d, b.d))
    if not r.n: r.d = ONE
    if _t:
        an = a.notan(); bn = b.notan()
        r.tan = _tan2(a, b, lambda x, y: add(mul(x, bn, False), mul(an, y, False), False))
    return r
def _inv_n(n):
    """1/(multilinear n) as (num multilinear, den generator-free)"""
    gens = set()
    for S in n: gens |= S
    if not gens: return ({E: ONE}, n.get(E, ZERO))
    g = sorted(gens)[0]
    Apart = {S: c for S, c in n.items() if g not in S}
    Bpart = {S - {g}: c for S, c in n.items() if g in S}
    if not Apart:
        # 1/(B g) = g / (B P)
        num2, den2 = _inv_n(Bpart)
        return (_muln({frozenset([g]): ONE}, num2), M(den2, ST.gens[g][1]))
    # 1/(A + B g) = (A - B g) / (A^2 - B^2 P)
    conj = dict(Apart)
    for S, c in Bpart.items(): conj[S | {g}] = NEG(c)
    den = _addn(_muln(Apart, Apart), {S: NEG(M(c, ST.gens[g][1])) for S, c in _muln(Bpart, Bpart).items()})
    num2, den2 = _inv_n({S: c for S, c in den.items() if not isz(c)})
    return (_muln(conj, num2), den2)
def note_denominator(t):
    if z3.is_rational_value(t):
        if isz(t): raise ZeroDivisionError('exact division by zero')
        return
    k = t.get_id()
    if k not in ST.denom_keys:
        ST.denom_keys.add(k); ST.denoms.append(t)      # t stays referenced by the list, so its id is not reused
def inv(a, _t=True):
    a = lift(a)
    if not a.n: raise ZeroDivisionError('exact division by zero')
    num, den = _inv_n(a.n)
    note_denominator(den)
    r = RV({S: M(c, a.d) for S, c in num.items()}, den)
    if _t and a.tan is not None:
        r2 = mul(r, r, False)
        r.tan = {k: neg(mul(v, r2, False), False) for k, v in a.tan.items()}
    return r
class DivByZero(Exception):
    def __init__(self, num): self.num = num
def div(a, b, _t=True):
    a = lift(a); b = lift(b)
    if ST.zero_div is not None and not b.is_const():
        # policy 'fork': decide whether this divisor is zero on the current path (IEEE result then) instead of assuming it is not
        if ST.zero_div(b): raise DivByZero(a)
    if b.is_const() and not (_t and b.tan):
        c = b.const_value()
        if c == 0: raise ZeroDivisionError('exact division by zero')
        f = RV.const(1 / c); r = mul(a.notan(), f, False)
        if _t and a.tan is not None: r.tan = {k: mul(v, f, False) for k, v in a.tan.items()}
        return r
    ib = inv(b, False); an = a.notan(); r = mul(an, ib, False)
    if _t and (a.tan is not None or b.tan is not None):
        ib2 = mul(ib, ib, False)
        r.tan = _tan2(a, b, lambda x, y: sub(mul(x, ib, False), mul(mul(an, y, False), ib2, False), False))
    return r

# ---- polynomial canonicalisation of square-root arguments (sympy): sqrt(c * prod f_i^m_i) -> sqrt(c') * prod f_i^(m_i//2) * prod sqrt(f_i)
_sym_cache = {}
SYMPY_BUDGET_S = 8
class _Timeout(BaseException): pass
class _time_limit:
    """wall-time limit for a block, nested inside an outer SIGALRM timer (which is restored afterwards)"""
    def __init__(self, sec): self.sec = sec
    def __enter__(self):
        import signal, time
        self.ok = False
        try:
            self.old_handler = signal.getsignal(signal.SIGALRM); self.old_left = signal.getitimer(signal.ITIMER_REAL)[0]; self.t0 = time.time()
            def h(sig, frm): raise _Timeout()
            signal.signal(signal.SIGALRM, h); signal.setitimer(signal.ITIMER_REAL, self.sec); self.ok = True
        except ValueError: pass
        return self
    def __exit__(self, et, ev, tb):
        import signal, time
        if self.ok:
            signal.setitimer(signal.ITIMER_REAL, 0); signal.signal(signal.SIGALRM, self.old_handler)
            if self.old_left > 0: signal.setitimer(signal.ITIMER_REAL, max(0.05, self.old_left - (time.time() - self.t0)))
        return False
def _z3_to_sympy(t, syms):
    import sympy
    memo = {}
    def go(e):
        k = e.get_id()
        if k in memo: return memo[k]
        if z3.is_rational_value(e): r_ = sympy.Rational(e.numerator_as_long(), e.denominator_as_long())
        elif z3.is_int_value(e): r_ = sympy.Integer(e.as_long())
        elif z3.is_const(e) and e.decl().kind() == z3.Z3_OP_UNINTERPRETED:
            nm = e.decl().name(); s_ = sympy.Symbol(nm); syms[nm] = e; r_ = s_
        else:
            kd = e.decl().kind(); ch = [go(c) for c in e.children()]
            if kd == z3.Z3_OP_ADD: r_ = sympy.Add(*ch)
            elif kd == z3.Z3_OP_MUL: r_ = sympy.Mul(*ch)
            elif kd == z3.Z3_OP_SUB: r_ = ch[0] - sympy.Add(*ch[1:])
            elif kd == z3.Z3_OP_UMINUS: r_ = -ch[0]
            elif kd == z3.Z3_OP_TO_REAL: r_ = ch[0]
            elif kd == z3.Z3_OP_POWER and ch[1].is_Integer and ch[1] >= 0: r_ = ch[0] ** ch[1]
            elif kd == z3.Z3_OP_DIV and ch[1].is_Rational and ch[1] != 0: r_ = ch[0] / ch[1]
            else: raise ValueError('non-polynomial term')
        memo[k] = r_; return r_
    return go(t)
def _sympy_to_z3(p, syms):
    import sympy
    def go(e):
        if e.is_Rational: return z3.RatVal(int(e.p), int(e.q))
        if e.is_Symbol:
            v = syms[e.name]; return z3.ToReal(v) if z3.is_int(v) else v
        if e.is_Add:
            tot = None
            for a_ in e.args: tot = go(a_) if tot is None else tot + go(a_)
            return tot
        if e.is_Mul:
            tot = None
            for a_ in e.args: tot = go(a_) if tot is None else tot * go(a_)
            return tot
        if e.is_Pow and e.exp.is_Integer and e.exp > 0:
            b = go(e.base); tot = b
            for _ in range(int(e.exp) - 1): tot = tot * b
            return tot
        raise ValueError('unexpected sympy node %r' % (e,))
    return go(p)
def _nonneg(t):
    s_ = z3.Solver(); s_.set('timeout', 2000); s_.add(t < 0); ST.unify_queries += 1
    if s_.check() == z3.unsat: return True
    if ST.context is not None:
        s_ = z3.Solver(); s_.set('timeout', 2000); s_.add(ST.context()); s_.add(t < 0); ST.unify_queries += 1
        return s_.check() == z3.unsat
    return False
def _canon_sqrt(P):
    """returns (outside z3 term >= 0, [radicand z3 terms]) with sqrt(P) == outside * prod sqrt(radicand_i), or None"""
    key = P.get_id()
    hit = _sym_cache.get(key)
    if hit is not None and z3.eq(hit[0], P): return hit[1]     # (the AST is kept alive in the cache: ids of freed ASTs are reused)
    res = None
    try:
        import sympy
        syms = {}
        sp = _z3_to_sympy(P, syms)
        with _time_limit(SYMPY_BUDGET_S):
          if len(syms) <= 24:
              c, facs = sympy.factor_list(sympy.expand(sp))
              c = sympy.Rational(c)
              outside = sympy.Integer(1); inside_signed = []; inside_nonneg = []
              # rational constant: pull out the square part
              num, den = int(abs(c.p)), int(c.q)
              import math
              def sqpart(n):
                  s_, rest, f = 1, n, 2
                  while f * f <= rest and f < 2000:
                      while rest % (f * f) == 0: rest //= f * f; s_ *= f
                      f += 1
                  r2 = math.isqrt(rest)
                  if r2 * r2 == rest: return s_ * r2, 1
                  return s_, rest
              sn, rn = sqpart(num); sd, rd = sqpart(den)
              outside = sympy.Rational(sn, sd)
              cin = sympy.Rational(rn, rd) * (1 if c >= 0 else -1)
              rad = []
              for f, m in facs:
                  fz = _sympy_to_z3(f, syms)
                  if m >= 2:
                      if (m // 2) % 2 == 0 or _nonneg(fz): outside = outside * f ** (m // 2)
                      else: m = m  # sign unknown: keep everything inside
                      if not ((m // 2) % 2 == 0 or _nonneg(fz)): rad.append((f, m)); continue
                  if m % 2: rad.append((f, 1))
              # split the radicand into separate generators only for factors that are provably non-negative
              gens_ = []; rest = cin
              for f, m in rad:
                  fz = _sympy_to_z3(f, syms)
                  if m == 1 and _nonneg(fz): gens_.append(fz)
                  else: rest = rest * f ** m
              if rest != 1: gens_.append(_sympy_to_z3(sympy.expand(rest), syms))
              res = (_sympy_to_z3(sympy.expand(outside), syms) if outside != 1 else ONE, gens_)
    except BaseException as ex:
        if not isinstance(ex, (Exception, _Timeout)): raise
        res = None
    _sym_cache[key] = (P, res)
    return res

def _unify_sqrt(P):
    key = z3.simplify(P).sexpr()
    name = ST.gen_by_arg.get(key)
    if name is None:
        for k_, (v_, P_) in ST.gens.items():
            s_ = z3.Solver(); s_.set('timeout', 3000); s_.add(P != P_); ST.unify_queries += 1
            if s_.check() == z3.unsat: name = k_; ST.gen_by_arg[key] = name; break
    if name is None:
        name = 'g!%d' % len(ST.gens); ST.gens[name] = (z3.Real(name), P); ST.gen_by_arg[key] = name
    return name

def sqrt(a):
    a = lift(a)
    if not a.n: return RV({})
    if set(a.n) - {E}:
        # sqrt of a value that itself contains generators: introduce a generator over the plain expression
        # (loses the polynomial normal form for this term; still exact)
        P = M(a.num_expr(), a.d)
    else:
        P = M(a.n.get(E, ZERO), a.d)            # sqrt(n/d) = sqrt(n*d)/d
    if z3.is_rational_value(P) and isone(a.d):
        fr = Fraction(P.numerator_as_long(), P.denominator_as_long())
        import math
        if fr >= 0:
            rn = math.isqrt(fr.numerator); rd = math.isqrt(fr.denominator)
            if rn * rn == fr.numerator and rd * rd == fr.denominator: return RV.const(Fraction(rn, rd))
    key0 = z3.simplify(P).sexpr()
    r = None
    if key0 not in ST.gen_by_arg and USE_SYMPY:
        can = _canon_sqrt(P)
        if can is not None and (len(can[1]) != 1 or not isone(can[0])):
            outside, rads = can
            names = frozenset(_unify_sqrt(q) for q in rads)
            if len(names) == len(rads):
                r = RV({names: outside}, a.d)
    if r is None:
        name = _unify_sqrt(P)
        r = RV({frozenset([name]): ONE}, a.d)
    if a.tan is not None:
        i2 = inv(mul(RV.const(2), r.notan(), False), False)   # (sqrt u)' = u' / (2 sqrt u)
        r.tan = {k: mul(v, i2, False) for k, v in a.tan.items()}
    return r

def _trans(kind, args):
    key = kind + ':' + '|'.join(z3.simplify(lift(x).expr()).sexpr() for x in args)
    name = ST.trans_by_key.get(key)
    if name is None:
        # semantic unification with an existing call of the same kind
        for k_, (kd, ar, v_) in ST.trans.items():
            if kd != kind or len(ar) != len(args): continue
            s_ = z3.Solver(); s_.set('timeout', 3000)
            s_.add(gen_constraints()); s_.add(z3.Or([lift(x).expr() != y.expr() for x, y in zip(args, ar)])); ST.unify_queries += 1
            if s_.check() == z3.unsat: name = k_; break
        if name is None:
            name = 't!%s%d' % (kind, len(ST.trans)); v = z3.Real(name)
            ST.trans[name] = (kind, tuple(lift(x).notan() for x in args), v)
            u = lift(args[0]).expr()
            if kind == 'exp': ST.axioms.append(v > 0)
            elif kind == 'acos':
                ST.axioms.append(z3.And(v >= 0, v <= PI, z3.Implies(u == 1, v == 0), z3.Implies(v == 0, u == 1), z3.Implies(u == 0, v == PI / 2), z3.Implies(u > 0, v < PI / 2), z3.Implies(u < 0, v > PI / 2), (u == -1) == (v == PI)))
                for k2, (kd2, ar2, v2) in ST.trans.items():
                    if kd2 == 'acos' and k2 != name:
                        s_ = z3.Solver(); s_.set('timeout', 3000); s_.add(gen_constraints()); s_.add(ar2[0].expr() + u != 0); ST.unify_queries += 1
                        if s_.check() == z3.unsat: ST.axioms.append(v + v2 == PI)
            elif kind == 'sin' or kind == 'cos':
                ST.axioms.append(z3.And(v >= -1, v <= 1))
                other = 'cos' if kind == 'sin' else 'sin'
                for k2, (kd2, ar2, v2) in ST.trans.items():
                    if kd2 == other and k2 != name:
                        s_ = z3.Solver(); s_.set('timeout', 3000); s_.add(gen_constraints()); s_.add(ar2[0].expr() != u); ST.unify_queries += 1
                        if s_.check() == z3.unsat: ST.axioms.append(v * v + v2 * v2 == 1)
            elif kind == 'atan2': ST.axioms.append(z3.And(v > -PI, v < PI))     # branch cut excluded
            elif kind == 'log': ST.axioms.append(z3.Implies(u == 1, v == 0))
        ST.trans_by_key[key] = name
    return name, ST.trans[name][2]
# pi is identified with the double literal PI of colvarmodule.h (assumption stated in the evidence): every relation
# between angles and the code's own PI constants is then linear
_pf = Fraction(struct.unpack('<d', struct.pack('<Q', 0x400921FB54442D18))[0])
PI = z3.RatVal(_pf.numerator, _pf.denominator)

def _chain(r, a, f):
    """r.tan = f * a.tan"""
    if a.tan is not None: r.tan = {k: mul(v, f, False) for k, v in a.tan.items()}
    return r
def _const_arg(a):
    """rational value of an argument that is constant after simplification (e.g. x - x), else None"""
    if not a.n: return Fraction(0)
    if set(a.n) - {E}: return None
    se = z3.simplify(a.expr())
    if z3.is_rational_value(se): return Fraction(se.numerator_as_long(), se.denominator_as_long())
    return None
def exp(a):
    a = lift(a)
    if _const_arg(a) == 0: return RV.const(1)
    nm, v = _trans('exp', [a]); r = RV({E: v})
    return _chain(r, a, r.notan())
def log(a):
    a = lift(a)
    if _const_arg(a) == 1: return RV({})
    nm, v = _trans('log', [a]); r = RV({E: v})
    return _chain(r, a, inv(a.notan(), False)) if a.tan is not None else r
def acos(a):
    a = lift(a)
    if _const_arg(a) == 1: return RV({})
    nm, v = _trans('acos', [a]); r = RV({E: v})
    if a.tan is not None:
        an = a.notan()
        s_ = sqrt(sub(RV.const(1), mul(an, an, False), False))
        r.tan = {k: mul(v_, neg(inv(s_, False), False), False) for k, v_ in a.tan.items()}
    return r
def asin(a):
    a = lift(a); nm, v = _trans('asin', [a]); r = RV({E: v})
    if a.tan is not None:
        an = a.notan()
        s_ = sqrt(sub(RV.const(1), mul(an, an, False), False))
        r.tan = {k: mul(v_, inv(s_, False), False) for k, v_ in a.tan.items()}
    return r
def sin(a):
    a = lift(a)
    if _const_arg(a) == 0: return RV({})
    # sin(acos u) = sqrt(1-u^2); sin(atan2(s,c)) = s/sqrt(s^2+c^2)
    t = _as_trans(a)
    if t is not None:
        if t[0] == 'acos': u = t[1][0]; return _chain_sin_of(a, sqrt(sub(RV.const(1), mul(u, u, False), False)))
        if t[0] == 'atan2': s, c = t[1]; return _chain_sin_of(a, div(s, sqrt(add(mul(s, s, False), mul(c, c, False), False)), False))
    nm, v = _trans('sin', [a]); r = RV({E: v})
    if a.tan is not None:
        cv = cos(a.notan()); r.tan = {k: mul(v_, cv, False) for k, v_ in a.tan.items()}
    return r
def cos(a):
    a = lift(a)
    if _const_arg(a) == 0: return RV.const(1)
    t = _as_trans(a)
    if t is not None:
        if t[0] == 'acos': return _chain_cos_of(a, t[1][0])
        if t[0] == 'atan2': s, c = t[1]; return _chain_cos_of(a, div(c, sqrt(add(mul(s, s, False), mul(c, c, False), False)), False))
    nm, v = _trans('cos', [a]); r = RV({E: v})
    if a.tan is not None:
        sv = sin(a.notan()); r.tan = {k: neg(mul(v_, sv, False), False) for k, v_ in a.tan.items()}
    return r
def _as_trans(a):
    """if a is exactly one transcendental symbol (possibly after simplification, e.g. (180/pi)*(pi/180)*t), return (kind, args)"""
    if len(a.n) == 1 and E in a.n:
        c = a.n[E]
        if not (isone(a.d) and z3.is_const(c)): c = z3.simplify(a.expr())
        if z3.is_app_of(c, z3.Z3_OP_MUL) and c.num_args() == 2 and z3.is_rational_value(c.arg(0)):
            # unit-conversion constants: (180/PI) and (PI/180) are folded to doubles whose product is 1 up to 1e-16;
            # they are taken as exact inverses (assumption stated in the evidence)
            f = Fraction(c.arg(0).numerator_as_long(), c.arg(0).denominator_as_long())
            if abs(f - 1) < Fraction(1, 10**12): c = c.arg(1)
        if z3.is_const(c) and c.decl().kind() == z3.Z3_OP_UNINTERPRETED:
            ent = ST.trans.get(c.decl().name())
            if ent: return ent
    return None
def _chain_sin_of(a, val):
    r = val.notan()
    if a.tan is not None:
        cv = cos(a.notan()); r.tan = {k: mul(v_, cv, False) for k, v_ in a.tan.items()}
    return r
def _chain_cos_of(a, val):
    r = lift(val).notan()
    if a.tan is not None:
        sv = sin(a.notan()); r.tan = {k: neg(mul(v_, sv, False), False) for k, v_ in a.tan.items()}
    return r
def atan2(s, c):
    s = lift(s); c = lift(c); nm, v = _trans('atan2', [s, c]); r = RV({E: v})
    if s.tan is not None or c.tan is not None:
        sn = s.notan(); cn = c.notan()
        den = inv(add(mul(sn, sn, False), mul(cn, cn, False), False), False)
        r.tan = _tan2(s, c, lambda ds, dc: mul(sub(mul(cn, ds, False), mul(sn, dc, False), False), den, False))
    return r
def powi(a, k):
    """a ** k for a concrete integer k (repeated multiplication: exact, polynomial)"""
    a = lift(a)
    if k == 0: return RV.const(1)
    if k < 0: return inv(powi(a, -k))
    r = None; base = a
    while k:
        if k & 1: r = base if r is None else mul(r, base)
        k >>= 1
        if k: base = mul(base, base)
    return r
def powr(a, b):
    """a ** b with symbolic or non-integer exponent: free symbol with derivative rules"""
    a = lift(a); b = lift(b); known = 'pow:' in ''.join(ST.trans_by_key) and None
    n0 = len(ST.trans); nm, v = _trans('pow', [a, b]); r = RV({E: v})
    if len(ST.trans) > n0 and b.is_const():
        # algebraic axiom for a constant rational exponent r/s:  p^s == a^r  (p > 0 for a > 0)
        fr = b.const_value()
        if abs(fr.numerator) <= 12 and fr.denominator <= 12:
            ae = a.expr(); ps = v
            for _ in range(fr.denominator - 1): ps = ps * v
            ar = ONE
            for _ in range(abs(fr.numerator)): ar = ar * ae
            ST.axioms.append(z3.Implies(ae > 0, z3.And(v > 0, (ps == ar) if fr.numerator >= 0 else (ps * ar == 1))))
    if a.tan is not None or b.tan is not None:
        an = a.notan(); bn = b.notan(); rn = r.notan()
        # d(a^b) = a^b * (b/a da + log(a) db)
        t1 = mul(rn, mul(bn, inv(an, False), False), False)
        def f(da, db):
            out = mul(t1, da, False)
            if db.n: out = add(out, mul(mul(rn, log(an), False), db, False), False)
            return out
        r.tan = _tan2(a, b, f)
    return r

def floor_int(a):
    """returns (z3 Int k, constraint or None) with k <= a < k+1; the same argument yields the same k"""
    a = lift(a); e = z3.simplify(a.expr()); key = e.sexpr()
    k = ST.floors.get(key)
    if k is not None: return k, None
    k = z3.Int('fl!%d' % ST.floor_n); ST.floor_n += 1; ST.floors[key] = k
    return k, z3.And(z3.ToReal(k) <= e, e < z3.ToReal(k) + 1)

def gen_constraints():
    return [z3.And(v * v == P, v >= 0) for (v, P) in ST.gens.values()] + list(ST.axioms)
def denom_constraints():
    return [t != 0 for t in ST.denoms]
def cmp(a, b, pred):
    a = lift(a); b = lift(b)
    if pred in ('eq', 'ne') and not set(a.n) - {E} and not set(b.n) - {E}:
        # cross-multiplied polynomial form (avoids division in the solver)
        x = M(a.n.get(E, ZERO), b.d); y = M(b.n.get(E, ZERO), a.d)
        return (x == y) if pred == 'eq' else (x != y)
    x = a.expr(); y = b.expr()
    return {'lt': x < y, 'le': x <= y, 'gt': x > y, 'ge': x >= y, 'eq': x == y, 'ne': x != y}[pred]
def equal_queries(a, b):
    """generator-free terms that must all be identically zero for a == b (sufficient; also necessary when the
    generators are independent)"""
    a = lift(a); b = lift(b)
    diff = _addn(a.n, {S: NEG(c) for S, c in b.n.items()}, b.d, a.d)
    return [c for c in diff.values() if not isz(c)]

def to_float(v):
    """numeric value of an RV whose coefficients and generator arguments are all constants (concrete runs)"""
    import math
    if not isinstance(v, RV): return float(v)
    def num(t):
        t = z3.simplify(t)
        if z3.is_rational_value(t): return t.numerator_as_long() / t.denominator_as_long()
        if z3.is_algebraic_value(t): return float(t.approx(20).as_decimal(17).rstrip('?'))
        raise ValueError('not a constant')
    gv = {}
    tot = 0.0
    for S, c in v.n.items():
        term = num(c)
        for g in S:
            if g not in gv: gv[g] = math.sqrt(num(ST.gens[g][1]))
            term *= gv[g]
        tot += term
    return tot / num(v.d)
