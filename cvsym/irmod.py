# IR module loader: union of per-TU JSON-lines dumps, lazily decoded functions
import json, os, pickle, struct, math
from fractions import Fraction

class Module:
    def __init__(self, paths):
        self.paths = list(paths)
        self.funcs = {}; self.globals = {}; self.decls = set(); self.aliases = {}; self.ctors = []
        self.fh = []
        for pi, path in enumerate(paths):
            idx = self._index(path)
            self.fh.append(open(path, 'rb'))
            for (k, name, off, ln, hasinit) in idx:
                ent = (pi, off, ln)
                if k == 'f':
                    if name not in self.funcs: self.funcs[name] = ent
                elif k == 'd': self.decls.add(name)
                elif k == 'g':
                    if name.endswith('::llvm.global_ctors'): self.ctors.append(ent); continue
                    old = self.globals.get(name)
                    if old is None or (hasinit and not old[3]): self.globals[name] = ent + (hasinit,)
                else:
                    if name not in self.aliases: self.aliases[name] = ent
        self.decls -= set(self.funcs)
        self.decls -= set(self.aliases)
        self.fcache = {}
    def _index(self, path):
        ip = path + '.idx'
        if os.path.exists(ip):
            with open(ip, 'rb') as f: return pickle.load(f)
        idx = []
        with open(path, 'rb') as f:
            off = 0
            for line in f:
                k = line[6:7].decode()
                i = line.find(b'"name":"') + 8; j = line.find(b'"', i)
                name = json.loads(b'"' + line[i:j] + b'"')
                hasinit = (k == 'g' and b'"init":' in line[:400 + len(name)]) or (k == 'g' and b',"init":' in line)
                idx.append((k, name, off, len(line), hasinit)); off += len(line)
        tmp = ip + '.tmp%d' % os.getpid()
        with open(tmp, 'wb') as f: pickle.dump(idx, f)
        os.replace(tmp, ip)
        return idx
    def read(self, ent):
        fh = self.fh[ent[0]]; fh.seek(ent[1]); return json.loads(fh.read(ent[2]))
    def reopen(self):
        """after fork: private file offsets"""
        self.fh = [open(p, 'rb') for p in self.paths]

def split_agg(ty):
    if ty[0] == '[':
        i = ty.index('x'); n = int(ty[1:i]); return [ty[i + 1:-1]] * n
    if ty[0] == '<':
        i = ty.index('x'); n = int(ty[1:i]); return [ty[i + 1:-1]] * n
    assert ty[0] == '{', ty
    out = []; depth = 0; cur = ''
    for ch in ty[1:-1]:
        if ch in '{[<': depth += 1
        if ch in '}]>': depth -= 1
        if ch == ',' and depth == 0: out.append(cur); cur = ''
        else: cur += ch
    if cur: out.append(cur)
    return out

_sa_cache = {}
def size_align(ty):
    r = _sa_cache.get(ty)
    if r is not None: return r
    if ty[0] == 'i':
        b = max(1, (int(ty[1:]) + 7) // 8)
        p = 1
        while p < b: p *= 2
        r = (p, min(p, 8)) if b <= 8 else (16, 16)
    elif ty in ('f64', 'ptr'): r = (8, 8)
    elif ty == 'f32': r = (4, 4)
    elif ty == 'f80': r = (16, 16)
    elif ty[0] == '[' or ty[0] == '<':
        i = ty.index('x'); n = int(ty[1:i]); s, a = size_align(ty[i + 1:-1]); r = (s * n, a)
    elif ty[0] == '{':
        off = 0; ma = 1
        for t in split_agg(ty):
            s, a = size_align(t); off = (off + a - 1) // a * a + s; ma = max(ma, a)
        r = ((off + ma - 1) // ma * ma, ma)
    else: raise ValueError('size_align ' + ty)
    _sa_cache[ty] = r
    return r

def agg_layout(ty):
    """list of (offset, elemty)"""
    out = []; off = 0
    packed = False
    for t in split_agg(ty):
        s, a = size_align(t); off = (off + a - 1) // a * a
        out.append((off, t)); off += s
    return out
