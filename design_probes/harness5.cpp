#include "colvarmodule.h"
#include "colvar.h"
#include "colvarbias.h"
#include "colvarproxy.h"
#include "colvarscript.h"
#include "../misc_interfaces/stubs/colvarproxy_stub.h"
extern "C" double verif_sym_double(const char*);
extern "C" void verif_out_double(const char*, double);
extern "C" void h_config() {
  colvarproxy_stub *px = new colvarproxy_stub();
  // 4 atoms available in the proxy arrays after requests
  int err = px->colvars->read_config_string(
    "colvarsTrajFrequency 0\n"
    "colvar {\n  name d\n  width 0.5\n  distance {\n    group1 { atomNumbers 1 2 }\n    group2 { atomNumbers 3 4 }\n  }\n}\n"
    "harmonic {\n  name h\n  colvars d\n  centers 3.0\n  forceConstant 10.0\n}\n");
  verif_out_double("err", err);
  verif_out_double("ncv", (double) px->colvars->variables()->size());
  verif_out_double("nbias", (double) px->colvars->biases.size());
  verif_out_double("natoms", (double) px->get_atom_ids()->size());
  auto *pos = px->modify_atom_positions();
  const char *nm[12] = {"x0","y0","z0","x1","y1","z1","x2","y2","z2","x3","y3","z3"};
  for (int i = 0; i < 4; i++) (*pos)[i] = cvm::rvector(verif_sym_double(nm[3*i]), verif_sym_double(nm[3*i+1]), verif_sym_double(nm[3*i+2]));
  int e2 = px->colvars->calc_colvars(); e2 |= px->colvars->calc_biases(); e2 |= px->colvars->update_colvar_forces();
  verif_out_double("calc_err", e2);
  verif_out_double("value", (*px->colvars->variables())[0]->value().real_value);
  verif_out_double("energy", px->colvars->total_bias_energy);
  auto *f = px->modify_atom_applied_forces();
  verif_out_double("fx0", (*f)[0].x);
}
