#include "colvarmodule.h"
#include "colvar.h"
#include "colvarcomp.h"
#include "colvarbias.h"
#include "colvarbias_abf.h"
#include "colvarbias_meta.h"
#include "colvarproxy.h"
#include "colvarscript.h"
#include "../misc_interfaces/stubs/colvarproxy_stub.h"
extern "C" double verif_sym_double(const char*);
extern "C" void verif_out_double(const char*, double);
extern "C" void h_biases() {
  colvarproxy_stub *px = new colvarproxy_stub();
  int err = px->colvars->read_config_string(
    "colvarsTrajFrequency 0\n"
    "colvar {\n  name d\n  width 0.5\n  lowerBoundary 1.0\n  upperBoundary 3.0\n  distance {\n    group1 { atomNumbers 1 }\n    group2 { atomNumbers 2 }\n  }\n}\n"
    "abf {\n  name a1\n  colvars d\n  fullSamples 2\n}\n"
    "metadynamics {\n  name m1\n  colvars d\n  hillWeight 0.1\n  hillWidth 2.0\n  newHillFrequency 2\n}\n"
    "histogram {\n  name h1\n  colvars d\n}\n");
  verif_out_double("err", err);
  verif_out_double("ncv", (double) px->colvars->variables()->size());
  verif_out_double("nbias", (double) px->colvars->biases.size());
  colvarbias_abf *abf = static_cast<colvarbias_abf *>(px->colvars->biases[0]);
  verif_out_double("abf_bins", abf ? (double) abf->samples->number_of_points() : -1.0);
  auto *pos = px->modify_atom_positions();
  (*pos)[0] = cvm::rvector(0.0, 0.0, 0.0);
  (*pos)[1] = cvm::rvector(verif_sym_double("x1"), 0.0, 0.0);
  px->colvars->it = px->colvars->it_restart = 0;
  int e2 = px->colvars->calc_colvars(); e2 |= px->colvars->calc_biases(); e2 |= px->colvars->update_colvar_forces();
  verif_out_double("calc_err", e2);
  verif_out_double("energy", px->colvars->total_bias_energy);
}
