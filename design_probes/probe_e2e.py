import sys, threading
sys.setrecursionlimit(100000); threading.stack_size(512*1024*1024)
import z3, spike_io2 as S, rdom as R, time
def main():
    m=S.Module(sys.argv[1]); I=S.Interp(m); noop=lambda I,a:None
    for n in list(m.funcs)+list(m.decls):
        if n.startswith('_ZNSt8ios_base4Init') or n.startswith('_ZN12colvarmodule3logE'): I.stubs[n]=noop
        if n.startswith('_ZN12colvarmodule5usageC') or n.startswith('_ZN12colvarmodule5usage12cite_feature'): I.stubs[n]=(lambda I,a:0)
    def decide(cond, I=I):
        c=z3.simplify(cond)
        if z3.is_true(c): return 1
        if z3.is_false(c): return 0
        sol=z3.Solver(); sol.set('timeout',2000); sol.add(I.pc+R.gen_constraints())
        sol.push(); sol.add(c); rt=sol.check(); sol.pop()
        sol.push(); sol.add(z3.Not(c)); rf=sol.check(); sol.pop()
        if rt==z3.unsat and rf!=z3.unsat: I.pc.append(z3.Not(c)); return 0
        if rf==z3.unsat and rt!=z3.unsat: I.pc.append(c); return 1
        if I.dpos < len(I.decisions): d=I.decisions[I.dpos]
        else: d=True; I.decisions.append(True)
        I.dpos+=1; I.pc.append(c if d else z3.Not(c)); print('  fork on', str(c)[:100].replace(chr(10),' '), '->', d); return 1 if d else 0
    I.decide=decide
    g=m.read(m.globals['llvm.global_ctors'])
    for e in g['init'][2:]:
        try: S.run(I,e[3][1],[])
        except S.Trap as ex: print('ctor trap',ex)
    t0=time.time(); S.run(I,'h_config',[]); print('steps',I.steps,'time',round(time.time()-t0,1),'decisions',I.decisions)
    for k in ['value','energy','fx0']:
        v=I.outs[k]; print(k,'gensets',[sorted(s_) for s_ in v.n], 'tan' if v.tan else '')
    for c in I.pc: print('  pc:', str(z3.simplify(c))[:200].replace(chr(10),' '))
    E=I.outs['energy']; fx=I.outs['fx0']
    # check fx0 == -dE/dx0
    ref=R.neg(E.tan['x0'])
    qs=R.equal_queries(fx,ref); s=z3.Solver(); s.add(I.pc+R.gen_constraints()); s.add(z3.Or([q!=0 for q in qs])) if qs else None
    t0=time.time(); print('fx0 == -dE/dx0 :', ('identical' if not qs else s.check()), round(time.time()-t0,2),'s')
th=threading.Thread(target=main); th.start(); th.join()
