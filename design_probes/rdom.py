# Probe: exact-real domain for the symbolic interpreter.
# A value is (sum_S c_S * prod_{g in S} g) / d  with c_S, d generator-free z3 Real polynomial terms,
# generators g are square roots of generator-free polynomials P_g (g*g == P_g, g >= 0).
# Optional tangent dict var-name -> RV (forward-mode AD through the executed IR).
import z3
from fractions import Fraction

ZERO = z3.RealVal(0); ONE = z3.RealVal(1)
GENS = {}          # name -> (z3 var, P_g term)
GEN_BY_ARG = {}    # structural key of P_g -> name

def isz(t): return z3.is_rational_value(t) and t.numerator_as_long() == 0
def isone(t): return z3.is_rational_value(t) and t.numerator_as_long() == 1 and t.denominator_as_long() == 1
def M(a, b):
    if isz(a) or isz(b): return ZERO
    if isone(a): return b
    if isone(b): return a
    return a * b
def A(a, b):
    if isz(a): return b
    if isz(b): return a
    return a + b
def NEG(a): return ZERO if isz(a) else -a
def rat(x):
    fr = Fraction(x); return z3.RatVal(fr.numerator, fr.denominator)

E = frozenset()

class RV:
    __slots__ = ('n', 'd', 'tan')
    def __init__(self, n, d=ONE, tan=None):
        self.n = {S: c for S, c in n.items() if not isz(c)}; self.d = d; self.tan = tan
    @staticmethod
    def const(x): return RV({E: rat(x)})
    @staticmethod
    def var(name, ad=False):
        v = RV({E: z3.Real(name)})
        if ad: v.tan = {name: RV({E: ONE})}
        return v
    def expr(self):
        """plain z3 expression (with generator variables)"""
        tot = ZERO
        for S, c in self.n.items():
            t = c
            for g in sorted(S): t = M(t, GENS[g][0])
            tot = A(tot, t)
        return tot if isone(self.d) else tot / self.d

def lift(x): return x if isinstance(x, RV) else RV.const(x)

def _addn(a, b, fa=ONE, fb=ONE):
    out = {}
    for S, c in a.items(): out[S] = M(c, fa)
    for S, c in b.items(): out[S] = A(out.get(S, ZERO), M(c, fb))
    return out
def _muln(a, b):
    out = {}
    for S1, c1 in a.items():
        for S2, c2 in b.items():
            c = M(c1, c2)
            for g in S1 & S2: c = M(c, GENS[g][1])
            S = S1 ^ S2
            out[S] = A(out.get(S, ZERO), c)
    return out

def _tan2(a, b, f):
    if a.tan is None and b.tan is None: return None
    ks = set(a.tan or ()) | set(b.tan or ())
    z = RV({})
    return {k: f((a.tan or {}).get(k, z), (b.tan or {}).get(k, z)) for k in ks}

def add(a, b, _t=True):
    a = lift(a); b = lift(b)
    if z3.eq(a.d, b.d): r = RV(_addn(a.n, b.n), a.d)
    else: r = RV(_addn(a.n, b.n, b.d, a.d), M(a.d, b.d))
    if _t: r.tan = _tan2(a, b, lambda x, y: add(x, y, False))
    return r
def neg(a, _t=True):
    a = lift(a); r = RV({S: NEG(c) for S, c in a.n.items()}, a.d)
    if _t and a.tan is not None: r.tan = {k: neg(v, False) for k, v in a.tan.items()}
    return r
def sub(a, b, _t=True):
    a = lift(a); b = lift(b); r = add(a, neg(b, False), False)
    if _t: r.tan = _tan2(a, b, lambda x, y: sub(x, y, False))
    return r
def mul(a, b, _t=True):
    a = lift(a); b = lift(b); r = RV(_muln(a.n, b.n), M(a.d, b.d))
    if _t: r.tan = _tan2(a, b, lambda x, y: add(mul(x, b, False), mul(a, y, False), False))
    return r
def _inv_n(n):
    """1/(multilinear n) as (num multilinear, den generator-free)"""
    gens = set()
    for S in n: gens |= S
    if not gens: return ({E: ONE}, n.get(E, ZERO))
    g = sorted(gens)[0]
    Apart = {S: c for S, c in n.items() if g not in S}
    Bpart = {S - {g}: c for S, c in n.items() if g in S}
    # 1/(A + B g) = (A - B g) / (A^2 - B^2 P)
    conj = dict(Apart)
    for S, c in Bpart.items(): conj[S | {g}] = NEG(c)
    den = _addn(_muln(Apart, Apart), {S: NEG(M(c, GENS[g][1])) for S, c in _muln(Bpart, Bpart).items()})
    num2, den2 = _inv_n({S: c for S, c in den.items() if not isz(c)})
    return (_muln(conj, num2), den2)
def inv(a, _t=True):
    a = lift(a); num, den = _inv_n(a.n)
    r = RV({S: M(c, a.d) for S, c in num.items()}, den)
    if _t and a.tan is not None:
        r2 = mul(r, r, False)
        r.tan = {k: neg(mul(v, r2, False), False) for k, v in a.tan.items()}
    return r
def div(a, b, _t=True):
    a = lift(a); b = lift(b); ib = inv(b, False); r = mul(a, ib, False)
    if _t and (a.tan is not None or b.tan is not None):
        # (a/b)' = a'/b - a b'/b^2
        ib2 = mul(ib, ib, False)
        r.tan = _tan2(a, b, lambda x, y: sub(mul(x, ib, False), mul(mul(a, y, False), ib2, False), False))
    return r
def sqrt(a):
    a = lift(a)
    if set(a.n) - {E}: raise NotImplementedError('sqrt of value containing generators')
    P = M(a.n.get(E, ZERO), a.d)            # sqrt(n/d) = sqrt(n*d)/d
    key = z3.simplify(P).sexpr()
    name = GEN_BY_ARG.get(key)
    if name is None:
        # semantic unification: reuse a generator whose argument is the same polynomial
        for k_, (v_, P_) in GENS.items():
            s_ = z3.Solver(); s_.set('timeout', 5000); s_.add(P != P_)
            if s_.check() == z3.unsat: name = k_; GEN_BY_ARG[key] = name; break
    if name is None:
        name = 'g%d' % len(GENS); GENS[name] = (z3.Real(name), P); GEN_BY_ARG[key] = name
    r = RV({frozenset([name]): ONE}, a.d)
    if a.tan is not None:
        # (sqrt u)' = u' / (2 sqrt u)
        i2 = inv(mul(RV.const(2), RV(dict(r.n), r.d), False), False)
        r.tan = {k: mul(v, i2, False) for k, v in a.tan.items()}
    return r
TRANS = {}   # name -> (kind, arg RV)
def acos(a):
    a = lift(a)
    key = 'acos:' + z3.simplify(a.expr()).sexpr()
    name = None
    for k, v in TRANS.items():
        if v[2] == key: name = k
    if name is None:
        name = 't%d' % len(TRANS); TRANS[name] = ('acos', a, key)
    r = RV({E: z3.Real(name)})
    if a.tan is not None:
        one_minus = sub(RV.const(1), mul(RV(dict(a.n), a.d), RV(dict(a.n), a.d), False), False)
        s_ = sqrt(one_minus)                       # sqrt(1-u^2)
        f = neg(inv(s_, False), False)             # -1/sqrt(1-u^2)
        r.tan = {k: mul(v, f, False) for k, v in a.tan.items()}
    return r
def gen_constraints():
    return [z3.And(v * v == P, v >= 0) for (v, P) in GENS.values()]
def cmp(a, b, pred):
    x = lift(a).expr(); y = lift(b).expr()
    return {'lt': x < y, 'le': x <= y, 'gt': x > y, 'ge': x >= y, 'eq': x == y, 'ne': x != y}[pred]
def equal_queries(a, b):
    """list of generator-free polynomial terms that must all be identically zero for a == b (sufficient condition)"""
    a = lift(a); b = lift(b)
    diff = _addn(a.n, {S: NEG(c) for S, c in b.n.items()}, b.d, a.d)
    return [c for c in diff.values() if not isz(c)]
