#include "colvarmodule.h"
#include "colvar.h"
#include "colvarcomp.h"
#include "colvarbias.h"
#include "colvarproxy.h"
#include "colvarscript.h"
#include "../misc_interfaces/stubs/colvarproxy_stub.h"
extern "C" double verif_sym_double(const char*);
extern "C" void verif_out_double(const char*, double);
extern "C" void h_smp() {
  colvarproxy_stub *px = new colvarproxy_stub();
  int err = px->colvars->read_config_string(
    "colvarsTrajFrequency 0\n"
    "colvar {\n  name d1\n  distance {\n    group1 { atomNumbers 1 }\n    group2 { atomNumbers 2 }\n  }\n}\n"
    "colvar {\n  name d2\n  distance {\n    group1 { atomNumbers 2 }\n    group2 { atomNumbers 3 }\n  }\n}\n");
  verif_out_double("err", err);
  verif_out_double("smp_set", px->set_smp_mode(colvarproxy::smp_mode_t::cvcs));
  auto *pos = px->modify_atom_positions();
  const char *nm[9] = {"x0","y0","z0","x1","y1","z1","x2","y2","z2"};
  for (int i = 0; i < 3; i++) (*pos)[i] = cvm::rvector(verif_sym_double(nm[3*i]), verif_sym_double(nm[3*i+1]), verif_sym_double(nm[3*i+2]));
  int e2 = px->colvars->calc_colvars();
  verif_out_double("calc_err", e2);
  verif_out_double("v1", (*px->colvars->variables())[0]->value().real_value);
  verif_out_double("v2", (*px->colvars->variables())[1]->value().real_value);
}
