import z3,time
x,l,w=z3.Reals('x l w')
def floor(t): return z3.ToReal(z3.ToInt(t))
i=floor((x-l)/w)
s=z3.Solver(); s.set('timeout',60000)
s.add(w>0)
s.add(z3.Not(z3.And(l+i*w<=x, x<l+(i+1)*w)))
t=time.time(); print(s.check(), time.time()-t)
# mutated: ceil-like (floor(t+0.5))
i2=floor((x-l)/w+0.5)
s=z3.Solver(); s.set('timeout',60000)
s.add(w>0); s.add(z3.Not(z3.And(l+i2*w<=x, x<l+(i2+1)*w)))
t=time.time(); print(s.check(), time.time()-t); 
# periodic dist2 invariance: diff - floor(diff/p+0.5)*p
p=z3.Real('p'); d=z3.Real('d'); n=z3.Int('n')
def wrapd(d): return d - floor(d/p+0.5)*p
s=z3.Solver(); s.set('timeout',60000)
s.add(p>0); s.add(wrapd(d)!=wrapd(d+z3.ToReal(n)*p))
t=time.time(); print('periodic inv',s.check(), time.time()-t)
s=z3.Solver(); s.set('timeout',60000)
s.add(p>0); s.add(z3.Not(z3.And(wrapd(d)>=-p/2, wrapd(d)<p/2)))
t=time.time(); print('range',s.check(), time.time()-t)
# with concrete period
for P in [360, z3.Q(1,3)]:
    def wrapc(d): return d - floor(d/P+0.5)*P
    s=z3.Solver(); s.set('timeout',60000)
    s.add(wrapc(d)!=wrapc(d+z3.ToReal(n)*P))
    t=time.time(); print('periodic inv concrete',P,s.check(), time.time()-t)
