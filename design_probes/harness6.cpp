#include "colvarmodule.h"
#include "colvar.h"
#include "colvarcomp.h"
#include "colvarbias.h"
#include "colvarproxy.h"
#include "colvarscript.h"
#include "../misc_interfaces/stubs/colvarproxy_stub.h"
extern "C" double verif_sym_double(const char*);
extern "C" void verif_out_double(const char*, double);
extern "C" void h_angle() {
  colvarproxy_stub *px = new colvarproxy_stub();
  int err = px->colvars->read_config_string(
    "colvarsTrajFrequency 0\n"
    "colvar {\n  name a\n  angle {\n    group1 { atomNumbers 1 }\n    group2 { atomNumbers 2 }\n    group3 { atomNumbers 3 }\n  }\n}\n");
  verif_out_double("err", err);
  auto *pos = px->modify_atom_positions();
  const char *nm[9] = {"x0","y0","z0","x1","y1","z1","x2","y2","z2"};
  for (int i = 0; i < 3; i++) (*pos)[i] = cvm::rvector(verif_sym_double(nm[3*i]), verif_sym_double(nm[3*i+1]), verif_sym_double(nm[3*i+2]));
  (*px->colvars->variables())[0]->enable(colvardeps::f_cv_gradient);
  int e2 = px->colvars->calc_colvars();
  colvar *cv = (*px->colvars->variables())[0];
  verif_out_double("value", cv->value().real_value);
  colvar::angle *c = static_cast<colvar::angle *>(cv->cvcs[0].get());
  const char *gn[9] = {"gx0","gy0","gz0","gx1","gy1","gz1","gx2","gy2","gz2"};
  cvm::atom_group *gs[3] = {c->group1, c->group2, c->group3};
  for (int i = 0; i < 3; i++) { verif_out_double(gn[3*i], (*gs[i])[0].grad.x); verif_out_double(gn[3*i+1], (*gs[i])[0].grad.y); verif_out_double(gn[3*i+2], (*gs[i])[0].grad.z); }
}
