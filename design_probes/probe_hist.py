#!/usr/bin/env python3-vt
# Probe: one inductive step of the real colvarbias_histogram::update() from an arbitrary pre-state:
# exactly one bin increases by 1 iff the value lies in [lower + i*w, lower + (i+1)*w), else none.  (C15)
import sys, threading, time, pickle, copy
sys.setrecursionlimit(100000); threading.stack_size(512*1024*1024)
import z3, spike_int as S, rdom as R
def main():
    m=S.Module(sys.argv[1]); noop=lambda I,a:None
    I=S.Interp(m)
    def stubs(I):
        for n in list(m.funcs)+list(m.decls):
            if n.startswith('_ZNSt8ios_base4Init') or n.startswith('_ZN12colvarmodule3logE'): I.stubs[n]=noop
            if n.startswith('_ZN12colvarmodule5usageC') or n.startswith('_ZN12colvarmodule5usage12cite_feature'): I.stubs[n]=(lambda I,a:0)
    stubs(I)
    g=m.read(m.globals['llvm.global_ctors'])
    for e in g['init'][2:]:
        try: S.run(I,e[3][1],[])
        except S.Trap: pass
    t0=time.time(); S.run(I,'h_setup10',[]); tset=time.time()-t0
    print('set-up: steps',I.steps,'time',round(tset,1),'err',float(I.outs['err']))
    snap=pickle.dumps((I.objs,I.base,I.gaddr,I.next_obj,I.next_addr,getattr(I,'ctype_obj',None),getattr(I,'npc',None)))
    decisions=[]; npaths=0; t00=time.time(); res=[]; lower=z3.RealVal(1); w=z3.Q(1,2); nq=0; tq=0
    while True:
        R.GENS.clear(); R.GEN_BY_ARG.clear(); R.TRANS.clear()
        J=S.Interp(m); stubs(J)
        J.objs,J.base,J.gaddr,J.next_obj,J.next_addr,c1,c2=pickle.loads(snap)
        if c1 is not None: J.ctype_obj=c1
        if c2 is not None: J.npc=c2
        J.decisions=list(decisions); J.dpos=0; J.pc=[]
        status='ok'
        try: S.run(J,'h_step10',[])
        except S.Backtrack: status='infeasible'
        except S.Trap as ex: status='TRAP %s'%ex
        npaths+=1
        if status=='ok':
            x=J.outs['value'].expr(); pc=J.pc+R.gen_constraints()
            pre=[z3.Real('c%d'%i) for i in range(4)]; post=[J.outs['n%d'%i] for i in range(4)]
            poste=[(p.expr() if isinstance(p,R.RV) else z3.RealVal(str(p))) for p in post]
            # specification
            spec=[]
            for i in range(4):
                inbin=z3.And(lower+i*w<=x, x<lower+(i+1)*w)
                spec.append(poste[i]==z3.If(inbin, pre[i]+1, pre[i]))
            s=z3.Solver(); s.set('timeout',30000); s.add(pc); s.add(z3.Not(z3.And(spec)))
            t0=time.time(); r=s.check(); tq+=time.time()-t0; nq+=1
            s2=z3.Solver(); s2.add(pc); wit=s2.check()
            res.append((J.decisions[:],str(r),str(wit)))
            print('path',npaths,'decisions',J.decisions,'feasible',wit,'spec violated?',r, ('' if r!=z3.sat else str(s.model())[:200]))
        else: print('path',npaths,status)
        d=J.decisions
        while d and d[-1] is False: d.pop()
        if not d: break
        d[-1]=False; decisions=d
    print('paths',npaths,'queries',nq,'solver',round(tq,2),'s; exploration',round(time.time()-t00,1),'s (set-up executed once:',round(tset,1),'s)')
th=threading.Thread(target=main); th.start(); th.join()
