#include "colvarmodule.h"
#include "colvarvalue.h"
#include "colvar.h"
#include "colvarcomp.h"
#include "colvartypes.h"
#include "colvaratoms.h"
#include "colvarproxy.h"
#include "colvarscript.h"
#include "../misc_interfaces/stubs/colvarproxy_stub.h"
extern "C" double verif_sym_double(const char*);
extern "C" void verif_out_double(const char*, double);
static colvarproxy_stub *px = nullptr;
extern "C" void h_setup() { px = new colvarproxy_stub(); verif_out_double("ok", 1.0); }
extern "C" void h_distance_calc() {
  colvar::distance *d = new colvar::distance();
  cvm::atom_group *g1 = new cvm::atom_group("group1");
  cvm::atom_group *g2 = new cvm::atom_group("group2");
  for (int i = 1; i <= 2; i++) { g1->add_atom(cvm::atom(i)); g2->add_atom(cvm::atom(i+2)); }
  verif_out_double("g1size", (double) g1->size());
  d->group1 = g1; d->group2 = g2; d->register_atom_group(g1); d->register_atom_group(g2);
  auto *pos = px->modify_atom_positions(); auto *ms = px->modify_atom_masses();
  const char *nm[12] = {"x0","y0","z0","x1","y1","z1","x2","y2","z2","x3","y3","z3"};
  for (int i = 0; i < 4; i++) { (*pos)[i] = cvm::rvector(verif_sym_double(nm[3*i]), verif_sym_double(nm[3*i+1]), verif_sym_double(nm[3*i+2])); (*ms)[i] = 1.0 + i; }
  g1->setup(); g2->setup();
  d->read_data(); d->calc_value(); d->calc_gradients();
  verif_out_double("value", d->value().real_value);
  verif_out_double("g1a0gx", (*g1)[0].grad.x);
}
