import z3, time, sys
from fractions import Fraction
# forward-mode dual numbers over z3 reals
N=12
class D:
    def __init__(s,v,d): s.v=v; s.d=d
    def __add__(a,b): b=lift(b); return D(a.v+b.v,[x+y for x,y in zip(a.d,b.d)])
    __radd__=__add__
    def __sub__(a,b): b=lift(b); return D(a.v-b.v,[x-y for x,y in zip(a.d,b.d)])
    def __rsub__(a,b): return lift(b)-a
    def __mul__(a,b): b=lift(b); return D(a.v*b.v,[x*b.v+a.v*y for x,y in zip(a.d,b.d)])
    __rmul__=__mul__
    def __truediv__(a,b): b=lift(b); return D(a.v/b.v,[(x*b.v-a.v*y)/(b.v*b.v) for x,y in zip(a.d,b.d)])
    def __neg__(a): return D(-a.v,[-x for x in a.d])
def lift(x):
    return x if isinstance(x,D) else D(z3.RealVal(x) if not z3.is_expr(x) else x,[z3.RealVal(0)]*N)
X=[z3.Real('x%d'%i) for i in range(N)]
P=[[D(X[3*a+k],[z3.RealVal(1 if j==3*a+k else 0) for j in range(N)]) for k in range(3)] for a in range(4)]
def sub(a,b): return [a[i]-b[i] for i in range(3)]
def dot(a,b): return a[0]*b[0]+a[1]*b[1]+a[2]*b[2]
def cross(a,b): return [a[1]*b[2]-a[2]*b[1], a[2]*b[0]-a[0]*b[2], a[0]*b[1]-a[1]*b[0]]
r12=sub(P[1],P[0]); r23=sub(P[2],P[1]); r34=sub(P[3],P[2])
n1=cross(r12,r23); n2=cross(r23,r34)
cons=[]
g=z3.Real('g')  # sqrt(r23.r23)
g2=dot(r23,r23)
cons += [g*g==g2.v, g>0]
G=D(g,[dd/(2*g) for dd in g2.d])
c=dot(n1,n2); s=dot(n1,r34)*G
K=z3.Real('K')
# value = K*atan2(s,c): derivative
den=s.v*s.v+c.v*c.v
dval=[K*(c.v*s.d[j]-s.v*c.d[j])/den for j in range(N)]
# code gradient
A=n1; B=n2; A2=dot(A,A); B2=dot(B,B)
f1=[K*G.v/A2.v*A[i].v for i in range(3)]
f2=[K*((dot(r12,r23).v/(A2.v*G.v))*A[i].v+(dot(r34,r23).v/(B2.v*G.v))*B[i].v) for i in range(3)]
f3=[K*G.v/B2.v*B[i].v for i in range(3)]
grad=[-f1[i] for i in range(3)]+[f2[i]+f1[i] for i in range(3)]+[-f3[i]-f2[i] for i in range(3)]+[f3[i] for i in range(3)]
cons += [A2.v>0,B2.v>0,den>0]
L=z3.Real('L')
sub_=[(X[3],z3.RealVal(0)),(X[4],z3.RealVal(0)),(X[5],z3.RealVal(0)),(X[6],L*z3.Q(2,7)),(X[7],L*z3.Q(3,7)),(X[8],L*z3.Q(6,7))]
fS=lambda t: z3.substitute(t,*sub_)
cons=[fS(c_) for c_ in cons]+[L>0]
mut = len(sys.argv)>1
for j in range(N):
    s_=z3.SolverFor('QF_NRA'); s_.set('timeout',30000)
    s_.add(cons)
    gj=grad[j]
    if mut and j==4: gj = f2[1]-f1[1]
    s_.add(fS(gj)!=fS(dval[j]))
    t=time.time(); r=s_.check(); print(j,r,round(time.time()-t,2)); sys.stdout.flush()
