#include "colvarmodule.h"
#include "colvar.h"
#include "colvarcomp.h"
#include "colvarbias.h"
#include "colvarbias_abf.h"
#include "colvarproxy.h"
#include "colvarscript.h"
#include "../misc_interfaces/stubs/colvarproxy_stub.h"
extern "C" double verif_sym_double(const char*);
extern "C" long verif_sym_i64(const char*);
extern "C" void verif_out_double(const char*, double);
extern "C" void verif_out_i64(const char*, long);
static colvarproxy_stub *px = nullptr;
extern "C" void h_setup12() {
  px = new colvarproxy_stub();
  int err = px->colvars->read_config_string(
    "units real\ncolvarsTrajFrequency 0\n"
    "colvar {\n  name d\n  width 0.5\n  lowerBoundary 1.0\n  upperBoundary 3.0\n  distance {\n    group1 { atomNumbers 1 }\n    group2 { atomNumbers 2 }\n  }\n}\n"
    "abf {\n  name a1\n  colvars d\n  fullSamples 4\n}\n");
  verif_out_double("err", err);
  verif_out_double("same_step", px->total_forces_same_step() ? 1 : 0);
}
extern "C" void h_step12() {
  colvarbias_abf *abf = static_cast<colvarbias_abf *>(px->colvars->biases[0]);
  const char *sn[4] = {"s0","s1","s2","s3"}; const char *gn[4] = {"G0","G1","G2","G3"};
  for (int i = 0; i < 4; i++) { abf->samples->data[i] = (size_t) verif_sym_i64(sn[i]); abf->gradients->data[i] = verif_sym_double(gn[i]); }
  abf->force_bin[0] = (int) verif_sym_i64("fb");               // bin occupied at the previous step (lagged-force convention)
  abf->colvar_forces[0].real_value = verif_sym_double("fprev");  // ABF force applied at the previous step
  verif_out_double("lagged", (*px->colvars->variables())[0]->is_enabled(colvardeps::f_cv_total_force_current_step) ? 0 : 1);
  auto *pos = px->modify_atom_positions();
  (*pos)[0] = cvm::rvector(0.0, 0.0, 0.0);
  (*pos)[1] = cvm::rvector(verif_sym_double("x1"), 0.0, 0.0);
  auto *tf = px->modify_atom_total_forces();
  (*tf)[0] = cvm::rvector(verif_sym_double("fx0"), verif_sym_double("fy0"), verif_sym_double("fz0"));
  (*tf)[1] = cvm::rvector(verif_sym_double("fx1"), verif_sym_double("fy1"), verif_sym_double("fz1"));
  px->colvars->it = 5; px->colvars->it_restart = 0;
  int e2 = px->colvars->calc_colvars(); e2 |= px->colvars->calc_biases();
  verif_out_double("calc_err", e2);
  const char *so[4] = {"ps0","ps1","ps2","ps3"}; const char *go[4] = {"pG0","pG1","pG2","pG3"};
  for (int i = 0; i < 4; i++) { verif_out_i64(so[i], (long) abf->samples->data[i]); verif_out_double(go[i], abf->gradients->data[i]); }
  verif_out_double("value", (*px->colvars->variables())[0]->value().real_value);
  verif_out_double("ft", (*px->colvars->variables())[0]->total_force().real_value);
  verif_out_double("fbias", abf->colvar_forces[0].real_value);
}
