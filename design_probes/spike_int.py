#!/usr/bin/env python3-vt
# Throw-away spike: concrete/symbolic LLVM-IR interpreter to measure feasibility and speed.
import json, sys, struct, time, math
import z3
from fractions import Fraction
import rdom as R
RV = R.RV

class Trap(Exception): pass

class Obj:
    __slots__ = ('size', 'cells', 'name', 'const', 'freed')
    def __init__(self, size, name=''):
        self.size = size; self.cells = {}; self.name = name; self.const = False; self.freed = False

NULL = (0, 0)

def mask(v, bits): return v & ((1 << bits) - 1)
def sext(v, bits):
    v &= (1 << bits) - 1
    return v - (1 << bits) if v >> (bits - 1) else v
def tybits(ty):
    if ty[0] == 'i': return int(ty[1:])
    if ty == 'f64' or ty == 'ptr': return 64
    if ty == 'f32': return 32
    raise Trap('tybits ' + ty)

class Module:
    def __init__(self, path):
        self.funcs = {}; self.globals = {}; self.decls = set(); self.aliases = {}
        self.path = path; self.fcache = {}
        with open(path, 'rb') as f:
            off = 0
            for line in f:
                k = line[6:7]
                if k == b'f' or k == b'd' or k == b'g' or k == b'a':
                    # cheap name extraction
                    i = line.find(b'"name":"') + 8
                    j = line.find(b'"', i)
                    name = line[i:j].decode()
                    if k == b'f': self.funcs[name] = (off, len(line))
                    elif k == b'd': self.decls.add(name)
                    elif k == b'g': self.globals[name] = (off, len(line))
                    else: self.aliases[name] = (off, len(line))
                off += len(line)
        self.fh = open(path, 'rb')
    def read(self, ent):
        self.fh.seek(ent[0]); return json.loads(self.fh.read(ent[1]))
    def func(self, name):
        f = self.fcache.get(name)
        if f is None:
            f = self.read(self.funcs[name])
            f['bmap'] = {b['id']: b for b in f['blocks']}
            self.fcache[name] = f
        return f

class Interp:
    def __init__(self, mod):
        self.m = mod; self.objs = {0: Obj(0, 'null')}; self.next_obj = 1; self.base = {}; self.next_addr = 0x10000
        self.gaddr = {}; self.steps = 0; self.outs = {}; self.syms = {}
        self.decisions = []; self.dpos = 0; self.pc = []; self.nfl = 0; self.stack = []; self.stubs = {}; self.heap_live = 0; self.unknown_calls = {}; self.base = {}; self.next_addr = 0x10000
    def feasible(self, cond):
        s = z3.Solver(); s.set('timeout', 5000); s.add(self.pc + R.gen_constraints()); s.add(cond)
        return s.check() != z3.unsat
    def decide(self, cond):
        c = z3.simplify(cond)
        if z3.is_true(c): return 1
        if z3.is_false(c): return 0
        ft = self.feasible(c); ff = self.feasible(z3.Not(c))
        if ft and not ff: self.pc.append(c); return 1
        if ff and not ft: self.pc.append(z3.Not(c)); return 0
        if self.dpos < len(self.decisions): d = self.decisions[self.dpos]
        else: d = True; self.decisions.append(True)
        self.dpos += 1
        self.pc.append(c if d else z3.Not(c))
        return 1 if d else 0
    def concretize(self, x):
        s = z3.Solver(); s.add(self.pc + R.gen_constraints()); tried = 0
        while True:
            if s.check() != z3.sat: raise Backtrack()
            v = s.model().eval(x, model_completion=True).as_long()
            if self.decide(x == v): return v
            s.add(x != v); tried += 1
            if tried > 64: raise Trap('concretize: too many values')
    # ---- memory
    def alloc(self, size, name=''):
        o = Obj(size, name); i = self.next_obj; self.next_obj += 1; self.objs[i] = o
        self.base[i] = self.next_addr; self.next_addr += (size + 64 + 15) // 16 * 16
        return (i, 0)
    def addr(self, p):
        if p[0] == 'int': return p[1]
        if p[0] == 'fn': return 1 << 40
        if p[0] == 0: return p[1]
        return self.base[p[0]] + p[1]
    def gptr(self, name):
        p = self.gaddr.get(name)
        if p is not None: return p
        if name in self.m.globals:
            g = self.m.read(self.m.globals[name])
            p = self.alloc(g['size'], name); self.gaddr[name] = p
            if 'init' in g: self.store_const(p, g['init'], g['ty'])
            return p
        if name in self.m.funcs or name in self.m.decls:
            p = ('fn', name); self.gaddr[name] = p; return p
        if name in self.m.aliases:
            a = self.m.read(self.m.aliases[name]); p = self.const(a['target']); self.gaddr[name] = p; return p
        raise Trap('unknown global ' + name)
    def tysize(self, ty):
        # minimal type-size computation for constant initialisers (x86-64)
        if ty[0] == 'i': return max(1, int(ty[1:]) // 8)
        if ty in ('f64', 'ptr'): return 8
        if ty == 'f32': return 4
        raise Trap('tysize ' + ty)
    def store_const(self, p, c, ty):
        k = c[0]
        if k == 'zero' or k == 'undef':
            return  # zero by default on load of missing cell in globals
        if k == 'cagg':
            # need layout: compute by walking element types with alignment
            off = 0
            elems = c[2:]
            etys = split_agg(c[1])
            is_struct = c[1][0] == '{'
            for e, et in zip(elems, etys):
                sz, al = size_align(et)
                off = (off + al - 1) // al * al
                self.store_const((p[0], p[1] + off), e, et)
                off += sz
            return
        v = self.const(c)
        self.store(p, v, self.tysize(ty) if ty[0] != '{' and ty[0] != '[' else 8)
    def load(self, p, size, ty):
        if p[0] == 'fn' or p[0] == 0: raise Trap('load from bad pointer %r' % (p,))
        o = self.objs[p[0]]; off = p[1]
        if off < 0 or off + size > o.size: raise Trap('OOB load %s off %d size %d objsize %d' % (o.name, off, size, o.size))
        c = o.cells.get(off)
        if c is not None and c[0] == size:
            v = c[1]
            return self.conv_loaded(v, ty)
        # assemble from bytes
        bs = []
        for i in range(size):
            b = self.load_byte(o, off + i)
            bs.append(b)
        v = int.from_bytes(bytes(bs), 'little')
        if ty == 'f64': return Fraction(struct.unpack('<d', bytes(bs))[0])
        if ty == 'ptr':
            if v == 0: return NULL
            raise Trap('assembling pointer from bytes')
        return v
    def load_byte(self, o, off):
        c = o.cells.get(off)
        if c is not None and c[0] == 1 and isinstance(c[1], int): return c[1] & 255
        # search covering cell
        for back in range(0, 16):
            c = o.cells.get(off - back)
            if c is not None and c[0] > back:
                v = c[1]
                if isinstance(v, (float, Fraction)): v = struct.unpack('<Q', struct.pack('<d', float(v)))[0]
                if isinstance(v, tuple):
                    if v == NULL: return 0
                    raise Trap('byte of pointer')
                if not isinstance(v, int): raise Trap('byte of symbolic')
                return (v >> (8 * back)) & 255
        return 0  # uninitialised/zero
    def conv_loaded(self, v, ty):
        if ty == 'f64':
            if isinstance(v, int): return Fraction(struct.unpack('<d', struct.pack('<Q', v))[0])
            return v
        if ty == 'ptr':
            if isinstance(v, int):
                if v == 0: return NULL
                raise Trap('int->ptr load %d' % v)
            return v
        if ty[0] == 'i':
            if isinstance(v, (float, Fraction)): return struct.unpack('<Q', struct.pack('<d', float(v)))[0]
            if isinstance(v, tuple):
                if v == NULL: return 0
                return v  # pointer held in integer register
            return v
        return v
    def store(self, p, v, size):
        if p[0] == 'fn' or p[0] == 0: raise Trap('store to bad pointer %r' % (p,))
        o = self.objs[p[0]]; off = p[1]
        if off < 0 or off + size > o.size: raise Trap('OOB store %s off %d size %d objsize %d' % (o.name, off, size, o.size))
        cells = o.cells
        # remove overlapping cells (split concrete ints into bytes when partially overlapped)
        for back in range(1, 16):
            c = cells.get(off - back)
            if c is not None and c[0] > back: self.split(o, off - back)
        for i in range(size):
            c = cells.get(off + i)
            if c is not None:
                if i + c[0] > size: self.split(o, off + i)
                cells.pop(off + i, None)
        cells[off] = (size, v)
    def split(self, o, off):
        c = o.cells.pop(off)
        v = c[1]
        if isinstance(v, (float, Fraction)): v = struct.unpack('<Q', struct.pack('<d', float(v)))[0]
        if isinstance(v, tuple) and v == NULL: v = 0
        if not isinstance(v, int): raise Trap('split of symbolic/pointer cell')
        for i in range(c[0]): o.cells[off + i] = (1, (v >> (8 * i)) & 255)
    def memcpy(self, d, s, n):
        if n == 0: return
        so = self.objs[s[0]];
        if s[1] < 0 or s[1] + n > so.size: raise Trap('OOB memcpy src')
        items = []
        i = 0
        while i < n:
            c = so.cells.get(s[1] + i)
            if c is not None and i + c[0] <= n:
                items.append((i, c[0], c[1])); i += c[0]
            else:
                items.append((i, 1, self.load_byte(so, s[1] + i))); i += 1
        for (i, sz, v) in items: self.store((d[0], d[1] + i), v, sz)
    # ---- values
    def const(self, c):
        k = c[0]
        if k == 'ci': return int(c[2])
        if k == 'cf':
            if c[1] == 'f64':
                fv = struct.unpack('<d', struct.pack('<Q', int(c[2])))[0]
                return Fraction(fv) if fv == fv and abs(fv) != math.inf else fv
            if c[1] == 'f32': return struct.unpack('<f', struct.pack('<I', int(c[2])))[0]
            raise Trap('cf ' + c[1])
        if k == 'null': return NULL
        if k == 'undef' or k == 'zero':
            ty = c[1]
            if ty[0] == '{' or ty[0] == '[': return [self.const(['zero', t]) for t in split_agg(ty)]
            return Fraction(0) if ty == 'f64' else (NULL if ty == 'ptr' else 0)
        if k == 'g': return self.gptr(c[1])
        if k == 'cegep':
            b = self.const(c[1])
            if b[0] == 'fn': raise Trap('gep on fn')
            if c[3]: raise Trap('variable cegep')
            return (b[0], b[1] + c[2])
        if k == 'ce':
            op = c[1]
            if op in ('bitcast', 'addrspacecast'): return self.const(c[3])
            if op == 'ptrtoint': return self.const(c[3])
            if op == 'inttoptr':
                v = self.const(c[3]); return NULL if v == 0 else v
            raise Trap('ce ' + op)
        if k == 'cagg': return [self.const(e) for e in c[2:]]
        raise Trap('const ' + k)

def split_agg(ty):
    if ty[0] == '[':
        i = ty.index('x'); n = int(ty[1:i]); return [ty[i + 1:-1]] * n
    assert ty[0] == '{'
    out = []; depth = 0; cur = ''
    for ch in ty[1:-1]:
        if ch in '{[<': depth += 1
        if ch in '}]>': depth -= 1
        if ch == ',' and depth == 0: out.append(cur); cur = ''
        else: cur += ch
    if cur: out.append(cur)
    return out
def size_align(ty):
    if ty[0] == 'i':
        b = max(1, (int(ty[1:]) + 7) // 8); return b, b
    if ty in ('f64', 'ptr'): return 8, 8
    if ty == 'f32': return 4, 4
    if ty[0] == '[':
        i = ty.index('x'); n = int(ty[1:i]); s, a = size_align(ty[i + 1:-1]); return s * n, a
    if ty[0] == '{':
        off = 0; ma = 1
        for t in split_agg(ty):
            s, a = size_align(t); off = (off + a - 1) // a * a + s; ma = max(ma, a)
        return (off + ma - 1) // ma * ma, ma
    raise Trap('size_align ' + ty)

# symbolic real wrapper
SR = RV
class Backtrack(Exception): pass

class Frame:
    __slots__ = ('f', 'vals', 'bb', 'prev', 'ip', 'allocas')
    def __init__(self, f): self.f = f; self.vals = [None] * f['nvals']; self.bb = None; self.prev = None; self.ip = 0; self.allocas = []

def run(I, name, args):
    f = I.m.func(name)
    fr = Frame(f)
    for (aid, *_), v in zip(f['args'], args): fr.vals[aid[0] if isinstance(aid, list) else aid] = v
    return exec_frame(I, fr)

def val(I, fr, o):
    if o[0] == 'v': return fr.vals[o[1]]
    return I.const(o)

FCMP = {'oeq': lambda a, b: a == b, 'ogt': lambda a, b: a > b, 'oge': lambda a, b: a >= b, 'olt': lambda a, b: a < b, 'ole': lambda a, b: a <= b, 'one': lambda a, b: a != b,
        'une': lambda a, b: a != b, 'ueq': lambda a, b: a == b, 'ugt': lambda a, b: a > b, 'uge': lambda a, b: a >= b, 'ult': lambda a, b: a < b, 'ule': lambda a, b: a <= b}

def exec_frame(I, fr):
    f = fr.f; vals = fr.vals; bb = f['blocks'][0]; prev = None
    while True:
        insts = bb['insts']; n = len(insts); i = 0
        # phi nodes
        while i < n and insts[i]['op'] == 'phi':
            pass_vals = []
            j = i
            while j < n and insts[j]['op'] == 'phi':
                ins = insts[j]
                for (o, b) in ins['inc']:
                    if b == prev: pass_vals.append((ins['id'], val(I, fr, o))); break
                else: raise Trap('phi no incoming')
                j += 1
            for (d, v) in pass_vals: vals[d] = v
            i = j
        while i < n:
            ins = insts[i]; i += 1; op = ins['op']; I.steps += 1
            if op == 'load':
                vals[ins['id']] = I.load(val(I, fr, ins['ptr']), ins['sz'], ins['ty']) if ins['ty'][0] not in '{[' else load_agg(I, val(I, fr, ins['ptr']), ins['ty'])
            elif op == 'store':
                v = val(I, fr, ins['val'])
                if isinstance(v, list): store_agg(I, val(I, fr, ins['ptr']), v, ins['vty'])
                else: I.store(val(I, fr, ins['ptr']), v, ins['sz'])
            elif op == 'getelementptr':
                b = val(I, fr, ins['base']); off = ins['off'][0]
                for (o, sc) in ins['off'][1]:
                    x = val(I, fr, o)
                    if z3.is_expr(x): x = I.concretize(x)
                    off += (sext(x, 64) if x >= 0 else x) * sc
                if b[0] == 'fn': raise Trap('gep on fn')
                vals[ins['id']] = (b[0], b[1] + off)
            elif op == 'bitcast' or op == 'addrspacecast':
                v = val(I, fr, ins['ops'][0]); ty = ins['ty']; oty = ins['oty']
                if ty == oty or (ty == 'ptr' and oty == 'ptr'): vals[ins['id']] = v
                elif ty == 'f64' and oty == 'i64': vals[ins['id']] = struct.unpack('<d', struct.pack('<Q', v))[0]
                elif ty == 'i64' and oty == 'f64': vals[ins['id']] = struct.unpack('<Q', struct.pack('<d', v))[0]
                else: raise Trap('bitcast %s->%s' % (oty, ty))
            elif op == 'call' or op == 'invoke':
                cal = val(I, fr, ins['callee'])
                if not (isinstance(cal, tuple) and cal[0] == 'fn'): raise Trap('indirect call to %r' % (cal,))
                args = [val(I, fr, a[0]) for a in ins['args']]
                r = do_call(I, cal[1], args, ins)
                if 'id' in ins: vals[ins['id']] = r
                if op == 'invoke':
                    prev = bb['id']; bb = f['bmap'][ins['normal']]; break
            elif op == 'br':
                ops = ins['ops']
                if len(ops) == 1: tgt = ops[0][1]
                else:
                    c = val(I, fr, ops[0])
                    if z3.is_expr(c): c = I.decide(c)
                    if not isinstance(c, int): raise Trap('symbolic branch %r in %s' % (c, f['name']))
                    tgt = ops[2][1] if (c & 1) else ops[1][1]
                prev = bb['id']; bb = f['bmap'][tgt]; break
            elif op == 'ret':
                for a in fr.allocas: I.objs[a].freed = True
                return val(I, fr, ins['ops'][0]) if ins['ops'] else None
            elif op == 'alloca':
                nn = val(I, fr, ins['n'])
                p = I.alloc(ins['size'] * nn, 'alloca'); fr.allocas.append(p[0]); vals[ins['id']] = p
            elif op == 'icmp':
                a = val(I, fr, ins['a']); b = val(I, fr, ins['b']); pr = ins['pred']
                if (z3.is_expr(a) and z3.is_int(a)) or (z3.is_expr(b) and z3.is_int(b)):
                    bits = tybits(ins['oty'])
                    za = a if z3.is_expr(a) else z3.IntVal(sext(a, bits) if pr[0] == 's' or pr in ('eq', 'ne') else a); zb = b if z3.is_expr(b) else z3.IntVal(sext(b, bits) if pr[0] == 's' or pr in ('eq', 'ne') else b)
                    vals[ins['id']] = z3.simplify({'eq': lambda: za == zb, 'ne': lambda: za != zb, 'slt': lambda: za < zb, 'sle': lambda: za <= zb, 'sgt': lambda: za > zb, 'sge': lambda: za >= zb,
                                                   'ult': lambda: z3.And(za >= 0, za < zb), 'ule': lambda: z3.And(za >= 0, za <= zb), 'ugt': lambda: z3.Or(za < 0, za > zb), 'uge': lambda: z3.Or(za < 0, za >= zb)}[pr]()); continue
                if isinstance(a, tuple) or isinstance(b, tuple):
                    if isinstance(a, int): a = NULL if a == 0 else ('int', a)
                    if isinstance(b, int): b = NULL if b == 0 else ('int', b)
                    if pr == 'eq': r = a == b
                    elif pr == 'ne': r = a != b
                    else:
                        a = I.addr(a); b = I.addr(b); r = {'ult': a < b, 'ule': a <= b, 'ugt': a > b, 'uge': a >= b, 'slt': a < b, 'sle': a <= b, 'sgt': a > b, 'sge': a >= b}[pr]
                else:
                    bits = tybits(ins['oty'])
                    if pr[0] == 's': a = sext(a, bits); b = sext(b, bits)
                    r = {'eq': a == b, 'ne': a != b, 'ult': a < b, 'ule': a <= b, 'ugt': a > b, 'uge': a >= b, 'slt': a < b, 'sle': a <= b, 'sgt': a > b, 'sge': a >= b}[pr]
                vals[ins['id']] = 1 if r else 0
            elif op == 'fcmp':
                a = val(I, fr, ins['a']); b = val(I, fr, ins['b']); pr = ins['pred']
                if isinstance(a, SR) or isinstance(b, SR):
                    p2 = {'oeq':'eq','ueq':'eq','one':'ne','une':'ne','ogt':'gt','ugt':'gt','oge':'ge','uge':'ge','olt':'lt','ult':'lt','ole':'le','ule':'le'}[pr]
                    vals[ins['id']] = R.cmp(a, b, p2); continue
                if pr == 'uno': r = (a != a) or (b != b)
                elif pr == 'ord': r = not ((a != a) or (b != b))
                else: r = FCMP[pr](a, b)
                vals[ins['id']] = 1 if r else 0
            elif op in ('add', 'sub', 'mul', 'and', 'or', 'xor', 'shl', 'lshr', 'ashr', 'udiv', 'urem', 'sdiv', 'srem'):
                a = val(I, fr, ins['ops'][0]); b = val(I, fr, ins['ops'][1]); bits = tybits(ins['ty'])
                if (z3.is_expr(a) and z3.is_int(a)) or (z3.is_expr(b) and z3.is_int(b)):
                    za = a if z3.is_expr(a) else z3.IntVal(sext(a, bits)); zb = b if z3.is_expr(b) else z3.IntVal(sext(b, bits))
                    r = {'add': lambda: za + zb, 'sub': lambda: za - zb, 'mul': lambda: za * zb, 'srem': lambda: za % zb, 'sdiv': lambda: za / zb}.get(op)
                    if r is None: raise Trap('int-mode op ' + op)
                    vals[ins['id']] = z3.simplify(r()); continue
                if z3.is_expr(a) or z3.is_expr(b):
                    za = a if z3.is_expr(a) else z3.BoolVal(bool(a)); zb = b if z3.is_expr(b) else z3.BoolVal(bool(b))
                    vals[ins['id']] = {'xor': z3.Xor, 'and': z3.And, 'or': z3.Or}[op](za, zb); continue
                if isinstance(a, tuple) or isinstance(b, tuple):
                    # pointer arithmetic through integers
                    if op == 'sub' and isinstance(a, tuple) and isinstance(b, tuple) and a[0] == b[0]: r = a[1] - b[1]
                    elif op == 'add' and isinstance(a, tuple) and isinstance(b, int): r = (a[0], a[1] + sext(b, 64))
                    elif op == 'add' and isinstance(b, tuple) and isinstance(a, int): r = (b[0], b[1] + sext(a, 64))
                    elif op == 'sub' and isinstance(a, tuple) and isinstance(b, int): r = (a[0], a[1] - sext(b, 64))
                    else:
                        ia = I.addr(a) if isinstance(a, tuple) else a; ib = I.addr(b) if isinstance(b, tuple) else b
                        r = {'sub': ia - ib, 'add': ia + ib, 'and': ia & ib, 'or': ia | ib, 'xor': ia ^ ib, 'lshr': ia >> ib if op == 'lshr' else 0, 'mul': ia * ib, 'urem': ia % ib if ib else 0, 'udiv': ia // ib if ib else 0}.get(op)
                        if r is None: raise Trap('ptr int arith ' + op)
                    vals[ins['id']] = r if isinstance(r, tuple) else mask(r, bits); continue
                if op == 'add': r = a + b
                elif op == 'sub': r = a - b
                elif op == 'mul': r = a * b
                elif op == 'and': r = a & b
                elif op == 'or': r = a | b
                elif op == 'xor': r = a ^ b
                elif op == 'shl': r = a << b
                elif op == 'lshr': r = a >> b
                elif op == 'ashr': r = sext(a, bits) >> b
                elif op == 'udiv': r = a // b
                elif op == 'urem': r = a % b
                elif op == 'sdiv':
                    a = sext(a, bits); b = sext(b, bits); r = abs(a) // abs(b) * (1 if (a < 0) == (b < 0) else -1)
                else:
                    a = sext(a, bits); b = sext(b, bits); r = abs(a) % abs(b) * (1 if a >= 0 else -1)
                vals[ins['id']] = mask(r, bits)
            elif op in ('fadd', 'fsub', 'fmul', 'fdiv'):
                a = val(I, fr, ins['ops'][0]); b = val(I, fr, ins['ops'][1])
                if isinstance(a, SR) or isinstance(b, SR):
                    r = (R.add if op == 'fadd' else R.sub if op == 'fsub' else R.mul if op == 'fmul' else R.div)(a, b)
                else:
                    if op == 'fadd': r = a + b
                    elif op == 'fsub': r = a - b
                    elif op == 'fmul': r = a * b
                    else:
                        if b == 0: raise Trap('fdiv by concrete zero')
                        r = a / b
                vals[ins['id']] = r
            elif op == 'fneg':
                a = val(I, fr, ins['ops'][0]); vals[ins['id']] = R.neg(a) if isinstance(a, SR) else -a
            elif op in ('zext', 'trunc', 'sext', 'ptrtoint', 'inttoptr'):
                a = val(I, fr, ins['ops'][0])
                if isinstance(a, tuple): vals[ins['id']] = a; continue
                if z3.is_expr(a) and z3.is_int(a): vals[ins['id']] = a; continue   # Int-mode: no wrap (obligation elsewhere)
                if op == 'sext': a = mask(sext(a, tybits(ins['oty'])), tybits(ins['ty']))
                elif op == 'trunc': a = mask(a, tybits(ins['ty']))
                elif op == 'inttoptr': a = NULL if a == 0 else a
                vals[ins['id']] = a
            elif op in ('sitofp', 'uitofp'):
                a = val(I, fr, ins['ops'][0])
                if z3.is_expr(a) and z3.is_int(a): vals[ins['id']] = RV({R.E: z3.ToReal(a)}); continue
                vals[ins['id']] = Fraction(sext(a, tybits(ins['oty'])) if op == 'sitofp' else a)
            elif op in ('fptosi', 'fptoui'):
                a = val(I, fr, ins['ops'][0])
                if isinstance(a, SR):
                    e = z3.simplify(a.expr())
                    # exact when the value is an integer-valued term (floor result); otherwise truncation toward zero
                    vals[ins['id']] = z3.simplify(z3.ToInt(e)) if z3.is_app_of(e, z3.Z3_OP_TO_REAL) else z3.If(e >= 0, z3.ToInt(e), -z3.ToInt(-e)); continue
                vals[ins['id']] = mask(int(a), tybits(ins['ty']))
            elif op == 'fpext' or op == 'fptrunc':
                vals[ins['id']] = val(I, fr, ins['ops'][0])
            elif op == 'select':
                c = val(I, fr, ins['ops'][0])
                if z3.is_expr(c): c = I.decide(c)
                if not isinstance(c, int): raise Trap('symbolic select')
                vals[ins['id']] = val(I, fr, ins['ops'][1]) if (c & 1) else val(I, fr, ins['ops'][2])
            elif op == 'switch':
                c = val(I, fr, ins['cond']); tgt = ins['default']
                for (cv, b) in ins['cases']:
                    if I.const(cv) == c: tgt = b; break
                prev = bb['id']; bb = f['bmap'][tgt]; break
            elif op == 'extractvalue':
                a = val(I, fr, ins['agg'])
                for ix in ins['idx']: a = a[ix]
                vals[ins['id']] = a
            elif op == 'insertvalue':
                a = val(I, fr, ins['agg']); v = val(I, fr, ins['val'])
                a = deep_set(a, ins['idx'], v); vals[ins['id']] = a
            elif op == 'atomicrmw':
                p = val(I, fr, ins['ptr']); v = val(I, fr, ins['val']); old = I.load(p, ins['sz'], ins['ty']); k = ins['rmw']; bits = tybits(ins['ty'])
                new = {'add': lambda: old + v, 'sub': lambda: old - v, 'xchg': lambda: v, 'and': lambda: old & v, 'or': lambda: old | v, 'xor': lambda: old ^ v}[k]()
                I.store(p, mask(new, bits) if isinstance(new, int) else new, ins['sz']); vals[ins['id']] = old
            elif op == 'cmpxchg':
                p = val(I, fr, ins['ptr']); old = I.load(p, ins['sz'], ins['vty']); c = val(I, fr, ins['cmp'])
                ok = 1 if old == c else 0
                if ok: I.store(p, val(I, fr, ins['new']), ins['sz'])
                vals[ins['id']] = [old, ok]
            elif op == 'fence':
                pass
            elif op == 'unreachable':
                raise Trap('unreachable executed in ' + f['name'])
            elif op == 'landingpad' or op == 'resume':
                raise Trap('exception path')
            else:
                raise Trap('unsupported op ' + op)
        else:
            raise Trap('fell off block')

def deep_set(a, idx, v):
    a = list(a)
    if len(idx) == 1: a[idx[0]] = v
    else: a[idx[0]] = deep_set(a[idx[0]], idx[1:], v)
    return a
def load_agg(I, p, ty):
    out = []; off = 0
    for t in split_agg(ty):
        s, a = size_align(t); off = (off + a - 1) // a * a
        out.append(I.load((p[0], p[1] + off), s, t) if t[0] not in '{[' else load_agg(I, (p[0], p[1] + off), t)); off += s
    return out
def store_agg(I, p, v, ty):
    off = 0
    for t, x in zip(split_agg(ty), v):
        s, a = size_align(t); off = (off + a - 1) // a * a
        if isinstance(x, list): store_agg(I, (p[0], p[1] + off), x, t)
        else: I.store((p[0], p[1] + off), x, s)
        off += s

def cstr(I, p):
    o = I.objs[p[0]]; out = bytearray(); off = p[1]
    while True:
        b = I.load_byte(o, off)
        if b == 0: break
        out.append(b); off += 1
    return out.decode('latin1')

def do_call(I, name, args, ins):
    st = I.stubs.get(name)
    if st is not None: return st(I, args)
    if name == '_ZSt9use_facetISt5ctypeIcEERKT_RKSt6locale':
        if not hasattr(I, 'ctype_obj'): I.ctype_obj = do_call(I, 'verif_make_ctype', [], None)
        return I.ctype_obj
    if name.startswith('_ZSt9use_facetISt7num_get'): return I.gptr('verif_num_get')
    if name.startswith('_ZSt9use_facetISt7num_put'): return I.gptr('verif_num_put')
    if name.startswith('_ZSt9has_facet'): return 1
    if name == '_ZNKSt11__use_cacheISt16__numpunct_cacheIcEEclERKSt6locale':
        if not hasattr(I, 'npc'): do_call(I, 'verif_init_npc', [], None); I.npc = I.gptr('verif_npc')
        return I.npc
    if name.startswith('_ZSt16__convert_from_v'):
        fmt = cstr(I, args[3]); rest = args[4:]
        # fmt like %.*e / %.*g / %e ...
        pyfmt = fmt.replace('*', str(rest[0])) if '*' in fmt else fmt
        v = rest[-1]
        out = (pyfmt % float(v)).encode()
        n = min(len(out), args[2] - 1)
        for i in range(n): I.store((args[1][0], args[1][1] + i), out[i], 1)
        I.store((args[1][0], args[1][1] + n), 0, 1)
        return len(out)
    if name.startswith('_ZSt14__convert_to_vIdE'):
        txt = cstr(I, args[0])
        try: I.store(args[1], float(txt), 8)
        except ValueError:
            I.store(args[1], 0.0, 8); I.store(args[2], 4, 4)
        return None
    if name in ('_ZNSt6locale5facet15_S_get_c_localeEv', '__uselocale'): return NULL
    if name in ('_ZNSt6locale5facetD2Ev', '_ZNKSt5ctypeIcE13_M_widen_initEv', '_ZNSt6locale5facetD1Ev', '_ZNSt6locale5facetD0Ev'): return None
    if name == '_ZNKSt6locale2id5_M_idEv': return 0
    if name == '_ZSt18uncaught_exceptionv': return 0
    if name in I.m.funcs:
        f = I.m.func(name); fr = Frame(f)
        for a, v in zip(f['args'], args): fr.vals[a[0]] = v
        I.stack.append(name)
        r = exec_frame(I, fr)
        I.stack.pop()
        return r
    if name.startswith('llvm.lifetime') or name.startswith('llvm.dbg') or name == 'llvm.assume' or name.startswith('llvm.experimental.noalias'): return None
    if name.startswith('llvm.memcpy') or name.startswith('llvm.memmove'):
        I.memcpy(args[0], args[1], args[2]); return None
    if name.startswith('llvm.memset'):
        for i in range(args[2]): I.store((args[0][0], args[0][1] + i), args[1] & 255, 1)
        return None
    if name.startswith('llvm.expect'): return args[0]
    if name.startswith('llvm.is.constant'): return 0
    if name.startswith('llvm.objectsize'): return mask(-1, 64)
    if name in ('_Znwm', '_Znam', 'malloc'): return I.alloc(args[0], 'heap')
    if name in ('_ZdlPv', '_ZdaPv', 'free', '_ZdlPvm'): return None
    if name == 'strlen': return len(cstr(I, args[0]))
    if name == 'memcmp':
        a = bytes(I.load_byte(I.objs[args[0][0]], args[0][1] + i) for i in range(args[2])); b = bytes(I.load_byte(I.objs[args[1][0]], args[1][1] + i) for i in range(args[2]))
        return mask((a > b) - (a < b), 32)
    if name == '__cxa_atexit': return 0
    if name == 'memchr':
        o = I.objs[args[0][0]]
        for i in range(args[2]):
            if I.load_byte(o, args[0][1] + i) == (args[1] & 255): return (args[0][0], args[0][1] + i)
        return NULL
    if name == 'llvm.fabs.f64':
        if not isinstance(args[0], SR): return abs(args[0])
        return args[0] if I.decide(R.cmp(args[0], 0.0, 'ge')) else R.neg(args[0])
    if name == 'sqrt' or name == 'llvm.sqrt.f64':
        a = args[0]
        if isinstance(a, SR): return R.sqrt(a)
        if isinstance(a, Fraction):
            import math as _m
            rn = _m.isqrt(a.numerator); rd = _m.isqrt(a.denominator)
            if rn * rn == a.numerator and rd * rd == a.denominator: return Fraction(rn, rd)
            return R.sqrt(R.RV.const(a))
        return math.sqrt(a)
    if name == 'llvm.floor.f64':
        if isinstance(args[0], SR):
            k = z3.Int('fl!%d' % I.nfl); I.nfl += 1
            e = args[0].expr(); I.pc.append(z3.And(z3.ToReal(k) <= e, e < z3.ToReal(k) + 1))
            return RV({R.E: z3.ToReal(k)})
        return Fraction(math.floor(args[0]))
    if name == 'llvm.fmuladd.f64':
        a, b, c = args
        if any(isinstance(x, SR) for x in args): return R.add(R.mul(a, b), c)
        return a * b + c
    if name == 'llvm.umul.with.overflow.i64':
        r = args[0] * args[1]; return [mask(r, 64), 1 if r >> 64 else 0]
    if name == 'tolower':
        c = args[0]; return c + 32 if 65 <= c <= 90 else c
    if name == 'acos' and isinstance(args[0], SR): return R.acos(args[0])
    if name in ('acos', 'cos', 'sin', 'exp', 'log', 'atan2', 'pow', 'asin', 'tanh'):
        return getattr(math, name)(*args)
    if name == 'verif_sym_double':
        nm = cstr(I, args[0]); return RV.var(nm, ad=True)
    if name == 'verif_sym_i64': return z3.Int(cstr(I, args[0]))
    if name == 'verif_out_i64':
        I.outs[cstr(I, args[0])] = args[1]; return None
    if name == 'verif_out_double':
        I.outs[cstr(I, args[0])] = args[1]; return None
    if name == 'getenv': return NULL
    I.unknown_calls[name] = I.unknown_calls.get(name, 0) + 1
    raise Trap('unknown external ' + name)

if __name__ == '__main__':
    sys.setrecursionlimit(100000)
    import threading; threading.stack_size(512 * 1024 * 1024)
    def main():
        t0 = time.time(); m = Module(sys.argv[1]); print('index', round(time.time() - t0, 2), 's; funcs', len(m.funcs))
        I = Interp(m)
        noop = lambda I, a: None
        # stubs
        for n in list(m.funcs) + list(m.decls):
            if n.startswith('_ZNSt8ios_base4Init'): I.stubs[n] = noop
            if n.startswith('_ZN12colvarmodule3logE'): I.stubs[n] = noop
            if n.startswith('_ZN12colvarscriptC') or n.startswith('_ZN12colvarmodule5usageC') or n.startswith('_ZN12colvarmodule5usage12cite_feature'): I.stubs[n] = (lambda I, a: 0)
        # global ctors
        t0 = time.time()
        if '--ctors' in sys.argv:
            g = m.read(m.globals['llvm.global_ctors'])
            for e in g['init'][2:]:
                fn = e[3][1]
                try:
                    s0 = I.steps; run(I, fn, []); print('ctor', fn, I.steps - s0)
                except Trap as ex: print('ctor', fn, 'TRAP', ex)
        for h in sys.argv[2:]:
            if h.startswith('--'): continue
            s0 = I.steps; t0 = time.time()
            try:
                run(I, h, [])
                print('  stubbed externals:', len(I.unknown_calls)); print(h, 'ok steps', I.steps - s0, 'time', round(time.time() - t0, 2), 'outs', {k: (str(v.expr())[:160] if isinstance(v, SR) else (float(v) if not isinstance(v, (int, tuple)) else v)) for k, v in I.outs.items()})
            except Trap as ex:
                print(h, 'TRAP', ex, 'steps', I.steps - s0, 'time', round(time.time() - t0, 2)); print('  stack:', I.stack[-6:]); I.stack.clear()
    th = threading.Thread(target=main); th.start(); th.join()
