import z3, time, sys
# values: (n0, n1, d) meaning (n0 + n1*g)/d, with g*g = q ; all z3 Real polynomial terms
N=12
X=[z3.Real('x%d'%i) for i in range(N)]
L=z3.Real('L')
ZERO=z3.RealVal(0); ONE=z3.RealVal(1)
q=None
def isz(t): return z3.is_rational_value(t) and t.numerator_as_long()==0
class V:
    def __init__(s,n0,n1=ZERO,d=ONE): s.n0=n0; s.n1=n1; s.d=d
def lift(x): return x if isinstance(x,V) else V(z3.RealVal(x))
def add(a,b):
    a=lift(a); b=lift(b)
    if z3.eq(a.d,b.d): return V(A_(a.n0,b.n0),A_(a.n1,b.n1),a.d)
    return V(A_(M(a.n0,b.d),M(b.n0,a.d)), A_(M(a.n1,b.d),M(b.n1,a.d)), M(a.d,b.d))
def ng(t): return ZERO if isz(t) else -t
def neg(a): return V(ng(a.n0),ng(a.n1),a.d)
def sub(a,b): return add(a,neg(lift(b)))
def isz(t): return z3.is_rational_value(t) and t.numerator_as_long()==0
def isone(t): return z3.is_rational_value(t) and t.numerator_as_long()==1 and t.denominator_as_long()==1
def M(a,b):
    if isz(a) or isz(b): return ZERO
    if isone(a): return b
    if isone(b): return a
    return a*b
def A_(a,b):
    if isz(a): return b
    if isz(b): return a
    return a+b
def mul(a,b):
    a=lift(a); b=lift(b)
    return V(A_(M(a.n0,b.n0),M(M(a.n1,b.n1),q) if not (isz(a.n1) or isz(b.n1)) else ZERO), A_(M(a.n0,b.n1),M(a.n1,b.n0)), M(a.d,b.d))
def inv(a):
    # 1/((n0+n1 g)/d) = d (n0 - n1 g)/(n0^2 - n1^2 q)
    return V(M(a.d,a.n0), ng(M(a.d,a.n1)), (M(a.n0,a.n0)-M(M(a.n1,a.n1),q)) if not isz(a.n1) else M(a.n0,a.n0))
def div(a,b): return mul(lift(a),inv(lift(b)))
class D:
    def __init__(s,v,d): s.v=v; s.d=d
    def __add__(a,b): b=dl(b); return D(add(a.v,b.v),[add(x,y) for x,y in zip(a.d,b.d)])
    __radd__=__add__
    def __sub__(a,b): b=dl(b); return D(sub(a.v,b.v),[sub(x,y) for x,y in zip(a.d,b.d)])
    def __mul__(a,b): b=dl(b); return D(mul(a.v,b.v),[add(mul(x,b.v),mul(a.v,y)) for x,y in zip(a.d,b.d)])
    __rmul__=__mul__
def dl(x): return x if isinstance(x,D) else D(lift(x),[V(ZERO)]*N)
P=[[D(V(X[3*a+k]),[V(ONE if j==3*a+k else ZERO) for j in range(N)]) for k in range(3)] for a in range(4)]
def vsub(a,b): return [a[i]-b[i] for i in range(3)]
def dot(a,b): return a[0]*b[0]+a[1]*b[1]+a[2]*b[2]
def cross(a,b): return [a[1]*b[2]-a[2]*b[1], a[2]*b[0]-a[0]*b[2], a[0]*b[1]-a[1]*b[0]]
r12=vsub(P[1],P[0]); r23=vsub(P[2],P[1]); r34=vsub(P[3],P[2])
g2=dot(r23,r23)
q=g2.v.n0
n1=cross(r12,r23); n2=cross(r23,r34)
# G = g, dG = dq/(2g) = dq*g/(2q)
G=D(V(ZERO,ONE),[V(ZERO,dd.n0,2*q) for dd in g2.d])
c=dot(n1,n2); s=dot(n1,r34)*G
den=add(mul(s.v,s.v),mul(c.v,c.v))
dval=[div(sub(mul(c.v,s.d[j]),mul(s.v,c.d[j])),den) for j in range(N)]  # without K
A=n1; B=n2; A2=dot(A,A).v; B2=dot(B,B).v
f1=[mul(div(G.v,A2),A[i].v) for i in range(3)]
f2=[add(mul(div(dot(r12,r23).v,mul(A2,G.v)),A[i].v),mul(div(dot(r34,r23).v,mul(B2,G.v)),B[i].v)) for i in range(3)]
f3=[mul(div(G.v,B2),B[i].v) for i in range(3)]
grad=[neg(f1[i]) for i in range(3)]+[add(f2[i],f1[i]) for i in range(3)]+[sub(neg(f3[i]),f2[i]) for i in range(3)]+[f3[i] for i in range(3)]
mut = len(sys.argv)>1
tot=time.time()
for j in range(N):
    gj=grad[j]
    if mut and j==4: gj = sub(f2[1],f1[1])
    a=gj; b=dval[j]
    e0=a.n0*b.d-b.n0*a.d; e1=a.n1*b.d-b.n1*a.d
    s_=z3.Solver(); s_.set('timeout',60000)
    sub_=[(X[3],z3.RealVal(0)),(X[4],z3.RealVal(0)),(X[5],z3.RealVal(0)),]
    f=lambda t: z3.substitute(t,*sub_)
    s_.add(f(q)>0, f(A2.n0)>0, f(B2.n0)>0)
    s_.add(z3.Or(f(e0)!=0,f(e1)!=0))
    t=time.time(); r=s_.check(); print(j,r,round(time.time()-t,2)); sys.stdout.flush()
print('total',time.time()-tot)
