#!/usr/bin/env python3-vt
# Probe: gradient == derivative of value for a component built from config text, all paths (decision replay, no snapshot)
import sys, threading, time
sys.setrecursionlimit(100000); threading.stack_size(512*1024*1024)
import z3, spike_int as S, rdom as R
def main():
    m=S.Module(sys.argv[1]); harness=sys.argv[2]; nv=int(sys.argv[3]); tmo=int(sys.argv[4]) if len(sys.argv)>4 else 30
    noop=lambda I,a:None; decisions=[]; npaths=0; t00=time.time()
    names=[c+str(i) for i in range(nv) for c in 'xyz']; gnames=['g'+c+str(i) for i in range(nv) for c in 'xyz']
    while True:
        R.GENS.clear(); R.GEN_BY_ARG.clear(); R.TRANS.clear()
        I=S.Interp(m)
        for n in list(m.funcs)+list(m.decls):
            if n.startswith('_ZNSt8ios_base4Init') or n.startswith('_ZN12colvarmodule3logE'): I.stubs[n]=noop
            if n.startswith('_ZN12colvarmodule5usageC') or n.startswith('_ZN12colvarmodule5usage12cite_feature'): I.stubs[n]=(lambda I,a:0)
        g=m.read(m.globals['llvm.global_ctors'])
        for e in g['init'][2:]:
            try: S.run(I,e[3][1],[])
            except S.Trap: pass
        I.decisions=list(decisions); I.dpos=0; I.pc=[]
        status='ok'; t0=time.time()
        try: S.run(I,harness,[])
        except S.Backtrack: status='infeasible'
        except S.Trap as ex: status='TRAP %s'%ex
        npaths+=1
        print('path',npaths,'decisions',I.decisions,status,'exec',round(time.time()-t0,1),'s; pc:',[str(z3.simplify(c))[:70].replace(chr(10),' ') for c in I.pc][-3:])
        if status=='ok':
            val=I.outs['value']
            if not isinstance(val,R.RV): print('   value concrete:',float(val))
            else:
                pc=I.pc+R.gen_constraints(); tot=0
                for vn,gn in zip(names,gnames):
                    code=I.outs[gn]; ref=(val.tan or {}).get(vn,R.RV({}))
                    qs=R.equal_queries(code,ref)
                    if not qs: print('   ',gn,'identical'); continue
                    s=z3.Solver(); s.set('timeout',tmo*1000); s.add(pc); s.add(z3.Or([q!=0 for q in qs]))
                    t0=time.time(); r=s.check(); dt=time.time()-t0; tot+=dt
                    print('   ',gn,'== d value/d',vn,':',r,round(dt,2),'s')
                print('    solver total',round(tot,2))
        d=I.decisions
        while d and d[-1] is False: d.pop()
        if not d: break
        d[-1]=False; decisions=d
    print('paths',npaths,'total',round(time.time()-t00,1),'s')
th=threading.Thread(target=main); th.start(); th.join()
