// Concrete calibration of the dependency-graph invariants planned for C13 (native, not part of the framework)


#include "colvarmodule.h"
#include "colvar.h"
#include "colvarcomp.h"
#include "colvarbias.h"
#include "colvarproxy.h"
#include "colvarscript.h"
#include "colvaratoms.h"
#include "../misc_interfaces/stubs/colvarproxy_stub.h"
#include <cstdio>
static int check(colvardeps *o, const char *what) {
  int bad = 0;
  auto const &F = o->features();
  for (size_t f = 0; f < F.size(); f++) {
    if (!o->feature_states[f].enabled) continue;
    for (int g : F[f]->requires_self) if (!o->feature_states[g].enabled) { printf("  [%s] enabled '%s' lacks required '%s'\n", what, F[f]->description.c_str(), F[g]->description.c_str()); bad++; }
    for (int g : F[f]->requires_exclude) if (o->feature_states[g].enabled) { printf("  [%s] '%s' and excluded '%s' both enabled\n", what, F[f]->description.c_str(), F[g]->description.c_str()); bad++; }
    for (auto const &alt : F[f]->requires_alt) { bool any = false; for (int g : alt) any = any || o->feature_states[g].enabled; if (!any) { printf("  [%s] '%s' has no alternative enabled\n", what, F[f]->description.c_str()); bad++; } }
    for (int g : F[f]->requires_children) for (auto *c : o->children) if (o->is_enabled() && !c->feature_states[g].enabled) { printf("  [%s] '%s' requires child feature '%s' (child %s)\n", what, F[f]->description.c_str(), c->features()[g]->description.c_str(), c->description.c_str()); bad++; }
  }
  // ref_count lower bound: number of enabled self-dependants
  for (size_t g = 0; g < F.size(); g++) {
    int need = 0;
    for (size_t f = 0; f < F.size(); f++) if (o->feature_states[f].enabled) { for (int h : F[f]->requires_self) if ((size_t) h == g) need++; for (int h : o->feature_states[f].alternate_refs) if ((size_t) h == g) need++; }
    for (auto *p : o->parents) if (p->is_enabled()) for (size_t f = 0; f < p->features().size(); f++) if (p->feature_states[f].enabled) for (int h : p->features()[f]->requires_children) if ((size_t) h == g) need++;
    if (o->feature_states[g].enabled && o->feature_states[g].ref_count < need) { printf("  [%s] '%s' ref_count %d < dependants %d\n", what, F[g]->description.c_str(), o->feature_states[g].ref_count, need); bad++; }
    if (o->feature_states[g].enabled && o->feature_states[g].ref_count != need) { printf("  (info) [%s] '%s' ref_count %d, dependants %d\n", what, F[g]->description.c_str(), o->feature_states[g].ref_count, need); }
  }
  return bad;
}
static int check_all(colvarmodule *cv, const char *stage) {
  int bad = 0; printf("== %s\n", stage);
  for (auto *c : *cv->variables()) { bad += check(c, c->name.c_str()); for (auto &k : c->cvcs) { bad += check(k.get(), "cvc"); for (auto *ag : k->atom_groups) bad += check(ag, "group"); } }
  for (auto *b : cv->biases) bad += check(b, b->name.c_str());
  printf("   violations: %d\n", bad); return bad;
}
int main() {
  colvarproxy_stub *px = new colvarproxy_stub();
  px->colvars->read_config_string(
    "colvarsTrajFrequency 0\n"
    "colvar {\n name d\n width 0.5\n lowerBoundary 1.0\n upperBoundary 3.0\n outputAppliedForce on\n distance {\n group1 { atomNumbers 1 2 }\n group2 { atomNumbers 3 4 }\n }\n}\n"
    "colvar {\n name a\n angle {\n group1 { atomNumbers 1 }\n group2 { atomNumbers 2 }\n group3 { atomNumbers 3 }\n }\n}\n"
    "harmonic {\n name h\n colvars d a\n centers 3.0 90.0\n forceConstant 10.0\n}\n"
    "histogram {\n name hi\n colvars d\n}\n"
    "metadynamics {\n name m\n colvars d\n hillWeight 0.1\n hillWidth 2.0\n}\n");
  check_all(px->colvars, "after configuration");
  delete px->colvars->biases[0];
  check_all(px->colvars, "after deleting harmonic");
  delete px->colvars->biases[1];
  check_all(px->colvars, "after deleting metadynamics");
  delete (*px->colvars->variables())[1];
  check_all(px->colvars, "after deleting variable a");
  return 0;
}
