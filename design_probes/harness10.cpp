#include "colvarmodule.h"
#include "colvar.h"
#include "colvarcomp.h"
#include "colvarbias.h"
#include "colvarbias_abf.h"
#include "colvarbias_histogram.h"
#include "colvarproxy.h"
#include "colvarscript.h"
#include "../misc_interfaces/stubs/colvarproxy_stub.h"
extern "C" double verif_sym_double(const char*);
extern "C" void verif_out_double(const char*, double);
static colvarproxy_stub *px = nullptr;
extern "C" void h_setup10() {
  px = new colvarproxy_stub();
  int err = px->colvars->read_config_string(
    "colvarsTrajFrequency 0\n"
    "colvar {\n  name d\n  width 0.5\n  lowerBoundary 1.0\n  upperBoundary 3.0\n  distance {\n    group1 { atomNumbers 1 }\n    group2 { atomNumbers 2 }\n  }\n}\n"
    "histogram {\n  name h1\n  colvars d\n}\n");
  verif_out_double("err", err);
}
extern "C" void h_step10() {
  colvarbias_histogram *h = static_cast<colvarbias_histogram *>(px->colvars->biases[0]);
  // symbolic pre-state of the 4 bins
  const char *bn[4] = {"c0","c1","c2","c3"};
  for (int i = 0; i < 4; i++) h->grid->data[i] = verif_sym_double(bn[i]);
  auto *pos = px->modify_atom_positions();
  (*pos)[0] = cvm::rvector(0.0, 0.0, 0.0);
  (*pos)[1] = cvm::rvector(verif_sym_double("x1"), 0.0, 0.0);
  px->colvars->it = 5; px->colvars->it_restart = 0;   // step_relative > 0: samples are accumulated
  int e2 = px->colvars->calc_colvars(); e2 |= px->colvars->calc_biases();
  verif_out_double("calc_err", e2);
  const char *on[4] = {"n0","n1","n2","n3"};
  for (int i = 0; i < 4; i++) verif_out_double(on[i], h->grid->data[i]);
  verif_out_double("value", (*px->colvars->variables())[0]->value().real_value);
}
