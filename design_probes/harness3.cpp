#include "colvarmodule.h"
#include "colvartypes.h"
#include "colvarvalue.h"
#include "colvars_memstream.h"
extern "C" void verif_out_double(const char*, double);
extern "C" void h_memstream_int() {
  cvm::memory_stream os;
  std::vector<int> v; v.push_back(11); v.push_back(22); v.push_back(33);
  os << v;
  verif_out_double("written_len", (double) os.length());
  cvm::memory_stream is(os.length(), os.output_buffer());
  std::vector<int> w;
  is >> w;
  verif_out_double("ok", (double) (bool(is) ? 1 : 0));
  verif_out_double("n", (double) w.size());
  for (size_t i = 0; i < w.size() && i < 3; i++) { const char *nm[3] = {"w0","w1","w2"}; verif_out_double(nm[i], (double) w[i]); }
}
extern "C" void h_memstream_double() {
  cvm::memory_stream os;
  std::vector<double> v; v.push_back(1.5); v.push_back(2.5);
  os << v;
  cvm::memory_stream is(os.length(), os.output_buffer());
  std::vector<double> w; is >> w;
  verif_out_double("n", (double) w.size()); verif_out_double("w1", w.size() > 1 ? w[1] : -1.0);
}
