#!/usr/bin/env python3-vt
# Probe (C04): one inductive step of the real colvarbias_abf::update() from an arbitrary pre-state (same-step force convention)
import sys, threading, time, pickle
sys.setrecursionlimit(100000); threading.stack_size(512*1024*1024)
import z3, spike_int as S, rdom as R
def ex(v):
    if isinstance(v,R.RV): return v.expr()
    if z3.is_expr(v): return z3.ToReal(v) if z3.is_int(v) else v
    return z3.RealVal(str(v))
def main():
    m=S.Module(sys.argv[1]); noop=lambda I,a:None
    def stubs(I):
        for n in list(m.funcs)+list(m.decls):
            if n.startswith('_ZNSt8ios_base4Init') or n.startswith('_ZN12colvarmodule3logE'): I.stubs[n]=noop
            if n.startswith('_ZN12colvarmodule5usageC') or n.startswith('_ZN12colvarmodule5usage12cite_feature'): I.stubs[n]=(lambda I,a:0)
    I=S.Interp(m); stubs(I)
    g=m.read(m.globals['llvm.global_ctors'])
    for e in g['init'][2:]:
        try: S.run(I,e[3][1],[])
        except S.Trap: pass
    t0=time.time(); S.run(I,'h_setup12',[]); tset=time.time()-t0
    print('set-up: steps',I.steps,'time',round(tset,1),{k:float(v) for k,v in I.outs.items()})
    snap=pickle.dumps((I.objs,I.base,I.gaddr,I.next_obj,I.next_addr,getattr(I,'ctype_obj',None),getattr(I,'npc',None)))
    decisions=[]; npaths=0; t00=time.time(); nq=0; tq=0
    s_=[z3.Int('s%d'%i) for i in range(4)]; G=[z3.Real('G%d'%i) for i in range(4)]
    pre_assume=[si>=0 for si in s_]
    lower=z3.RealVal(1); w=z3.Q(1,2); full=4; mn=2
    while True:
        R.GENS.clear(); R.GEN_BY_ARG.clear(); R.TRANS.clear()
        J=S.Interp(m); stubs(J)
        J.objs,J.base,J.gaddr,J.next_obj,J.next_addr,c1,c2=pickle.loads(snap)
        if c1 is not None: J.ctype_obj=c1
        if c2 is not None: J.npc=c2
        J.decisions=list(decisions); J.dpos=0; J.pc=list(pre_assume)
        status='ok'
        try: S.run(J,'h_step12',[])
        except S.Backtrack: status='infeasible'
        except S.Trap as e_: status='TRAP %s'%e_
        npaths+=1
        if status=='ok':
            pc=J.pc+R.gen_constraints(); x=ex(J.outs['value']); ft=ex(J.outs['ft']); fb=ex(J.outs['fbias'])
            ps=[ex(J.outs['ps%d'%i]) for i in range(4)]; pG=[ex(J.outs['pG%d'%i]) for i in range(4)]
            fbin=z3.Int('fb'); fprev=z3.Real('fprev')
            spec=[]; fspec=z3.RealVal(0)
            # lagged-force convention: the sample measured now belongs to the bin of the previous step (fb)
            # and the ABF force applied then (fprev) is subtracted from the reported total force
            postS=[]; postG=[]
            for i in range(4):
                hit=(fbin==i)
                postS.append(z3.If(hit, z3.ToReal(s_[i])+1, z3.ToReal(s_[i])))
                postG.append(z3.If(hit, G[i]-(ft-fprev), G[i]))
                spec.append(ps[i]==postS[i]); spec.append(pG[i]==postG[i])
            for i in range(4):
                inb=z3.And(lower+i*w<=x, x<lower+(i+1)*w)
                c=postS[i]
                ramp=z3.If(c<=mn, 0, z3.If(c<full, (c-mn)/(c*(full-mn)), 1/c))
                fspec=z3.If(inb, ramp*postG[i], fspec)
            spec.append(fb==fspec)
            s=z3.Solver(); s.set('timeout',60000); s.add(pc); s.add(z3.Not(z3.And(spec)))
            t0=time.time(); r=s.check(); dt=time.time()-t0; tq+=dt; nq+=1
            s2=z3.Solver(); s2.add(pc); wit=s2.check()
            print('path',npaths,'decisions',J.decisions,'witness',wit,'spec violated?',r,round(dt,2),'s')
            if r==z3.sat:
                mdl=s.model()
                print('    model:',{str(d):str(mdl[d]) for d in mdl.decls() if str(d)[0] in 'sGxf' and 'fl' not in str(d)})
                for k,cj in enumerate(spec):
                    if not z3.is_true(mdl.eval(cj,model_completion=True)): print('    failing conjunct',k,':',str(z3.simplify(cj))[:260].replace(chr(10),' '))
                print('    pc:',[str(z3.simplify(c))[:80].replace(chr(10),' ') for c in J.pc[4:]][:8])
        else: print('path',npaths,'decisions',J.decisions,status)
        d=J.decisions
        while d and d[-1] is False: d.pop()
        if not d: break
        d[-1]=False; decisions=d
    print('paths',npaths,'queries',nq,'solver',round(tq,2),'s; exploration',round(time.time()-t00,1),'s; set-up once',round(tset,1),'s')
th=threading.Thread(target=main); th.start(); th.join()
