#include <sstream>
#include <iomanip>
#include <string>
extern "C" void verif_out_double(const char*, double);
extern "C" void h_io() {
  std::ostringstream os; os.setf(std::ios::scientific, std::ios::floatfield);
  os << "key " << 42 << " " << std::setprecision(14) << std::setw(21) << 1.5 << "\n";
  std::string s = os.str();
  verif_out_double("len", (double) s.size());
  std::istringstream is(s); std::string k; int a = 0; double b = 0;
  is >> k >> a >> b;
  verif_out_double("klen", (double) k.size()); verif_out_double("a", a); verif_out_double("b", b); verif_out_double("good", is ? 1 : 0);
  double c = -1; is >> c; verif_out_double("fail_after_eof", is ? 0 : 1);
  std::istringstream is2("ab cd\nef"); std::string line; std::getline(is2, line); verif_out_double("line", (double) line.size());
  std::istringstream is3("xyz"); double d = 7; is3 >> d; verif_out_double("text_rejected", is3.fail() ? 1 : 0);
}
