#!/usr/bin/env python3-vt
# Probe: end-to-end check of colvar::distance gradient on the REAL code:
# real constructors + calc_value + calc_gradients executed from LLVM IR with symbolic positions,
# forward-mode AD through calc_value, z3 decides grad == d(value)/d(pos) on every path.
import sys, time, threading
sys.setrecursionlimit(100000); threading.stack_size(512 * 1024 * 1024)
import z3
import spike2 as S, rdom as R

def main():
    m = S.Module(sys.argv[1]); harness = sys.argv[2]
    noop = lambda I, a: None
    decisions = []; npaths = 0; nq = 0; tsolve = 0.0; t00 = time.time(); viol = 0
    while True:
        R.GENS.clear(); R.GEN_BY_ARG.clear()
        I = S.Interp(m)
        for n in list(m.funcs) + list(m.decls):
            if n.startswith('_ZNSt8ios_base4Init') or n.startswith('_ZN12colvarmodule3logE'): I.stubs[n] = noop
            if n.startswith('_ZN12colvarscriptC') or n.startswith('_ZN12colvarmodule5usageC') or n.startswith('_ZN12colvarmodule5usage12cite_feature'): I.stubs[n] = (lambda I, a: 0)
        g = m.read(m.globals['llvm.global_ctors'])
        for e in g['init'][2:]:
            try: S.run(I, e[3][1], [])
            except S.Trap: pass
        S.run(I, 'h_setup', [])
        I.decisions = list(decisions); I.dpos = 0; I.pc = []
        status = 'ok'
        try: S.run(I, harness, [])
        except S.Trap as ex: status = 'TRAP %s' % ex
        npaths += 1
        pc = list(I.pc) + R.gen_constraints()
        s = z3.Solver(); s.set('timeout', 20000); s.add(pc)
        t0 = time.time(); feas = s.check(); tsolve += time.time() - t0; nq += 1
        print('path', npaths, 'decisions', I.decisions, 'feasible:', feas, status, 'steps', I.steps, 'gens', {k: str(v[1])[:60] for k, v in R.GENS.items()})
        if status == 'ok' and feas != z3.unsat and I.decisions == [True]:  # [False] = coincident centres (documented singular geometry)
            val = I.outs['value']
            names = ['x0', 'y0', 'z0', 'x2', 'y2', 'z2', 'x1', 'y1', 'z1', 'x3', 'y3', 'z3']  # proxy index order: atoms were requested interleaved (g1: idx 0,2; g2: idx 1,3)
            gn = ['gx0', 'gy0', 'gz0', 'gx1', 'gy1', 'gz1', 'gx2', 'gy2', 'gz2', 'gx3', 'gy3', 'gz3']
            for vn, g_ in zip(names, gn):
                code = I.outs[g_]; ref = (val.tan or {}).get(vn, R.RV({}))
                qs = R.equal_queries(code, ref)
                if not qs: print('   ', g_, 'identical normal forms'); continue
                s = z3.Solver(); s.set('timeout', 30000); s.add(pc); s.add(z3.Or([q != 0 for q in qs]))
                t0 = time.time(); r = s.check(); dt = time.time() - t0; tsolve += dt; nq += 1
                print('   ', g_, '== d value/d', vn, ':', 'HOLDS' if r == z3.unsat else ('VIOLATED ' + str(s.model())[:200] if r == z3.sat else 'UNKNOWN'), round(dt, 2), 's')
                if r != z3.unsat: viol += 1
        d = I.decisions
        while d and d[-1] is False: d.pop()
        if not d: break
        d[-1] = False; decisions = d
    print('paths', npaths, 'queries', nq, 'solver time', round(tsolve, 2), 'total', round(time.time() - t00, 2), 'violations/unknown', viol)

th = threading.Thread(target=main); th.start(); th.join()
