#!/usr/bin/env python3-vt
# Probe: bit-precise symbolic execution (symbolic bytes / lengths) of real Colvars code, all paths by decision replay
import sys, threading, time
sys.setrecursionlimit(100000); threading.stack_size(512*1024*1024)
import z3, spike_bv as S, rdom as R
def main():
    m=S.Module(sys.argv[1]); harness=sys.argv[2]; noop=lambda I,a:None
    decisions=[]; npaths=0; viol={}; t00=time.time(); nq=0; steps=0; outs={}
    while True:
        I=S.Interp(m)
        for n in list(m.funcs)+list(m.decls):
            if n.startswith('_ZNSt8ios_base4Init') or n.startswith('_ZN12colvarmodule3logE'): I.stubs[n]=noop
            if n.startswith('_ZN12colvarmodule5errorE'): I.stubs[n]=(lambda I,a: 1)
        g=m.read(m.globals['llvm.global_ctors'])
        for e in g['init'][2:]:
            try: S.run(I,e[3][1],[])
            except S.Trap: pass
        I.decisions=list(decisions); I.dpos=0; I.pc=[]
        status='ok'
        try: S.run(I,harness,[])
        except S.Violation as ex:
            status='VIOLATION: %s'%ex
            s=z3.Solver(); s.add(I.pc); s.check(); mdl=s.model()
            viol.setdefault(str(ex),[]).append({str(d):mdl[d] for d in mdl.decls()})
        except S.Backtrack: status='infeasible'
        except S.Trap as ex: status='TRAP %s'%ex
        npaths+=1; nq+=I.nq; steps+=I.steps
        key=status if status!='ok' else 'ok '+str({k:float(v) for k,v in I.outs.items()})
        outs[key]=outs.get(key,0)+1
        d=I.decisions
        while d and d[-1] is False: d.pop()
        if not d: break
        d[-1]=False; decisions=d
    print('paths',npaths,'feasibility queries',nq,'instr',steps,'time',round(time.time()-t00,1))
    for k,v in sorted(outs.items(), key=lambda kv:-kv[1])[:12]: print('  %6d  %s'%(v,k[:150]))
    for k,v in viol.items(): print('example model for', k[:60], ':', str(v[0])[:300])
th=threading.Thread(target=main); th.start(); th.join()
