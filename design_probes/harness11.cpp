#include "colvarmodule.h"
#include "colvar.h"
#include "colvarcomp.h"
#include "colvarbias.h"
#include "colvarproxy.h"
#include "colvarscript.h"
#include "../misc_interfaces/stubs/colvarproxy_stub.h"
extern "C" double verif_sym_double(const char*);
extern "C" void verif_out_double(const char*, double);
extern "C" void h_coordnum() {
  colvarproxy_stub *px = new colvarproxy_stub();
  int err = px->colvars->read_config_string(
    "units real\ncolvarsTrajFrequency 0\n"
    "colvar {\n  name c\n  coordNum {\n    group1 { atomNumbers 1 }\n    group2 { atomNumbers 2 3 }\n  }\n}\n");
  verif_out_double("err", err);
  (*px->colvars->variables())[0]->enable(colvardeps::f_cv_gradient);
  auto *pos = px->modify_atom_positions();
  const char *nm[9] = {"x0","y0","z0","x1","y1","z1","x2","y2","z2"};
  for (int i = 0; i < 3; i++) (*pos)[i] = cvm::rvector(verif_sym_double(nm[3*i]), verif_sym_double(nm[3*i+1]), verif_sym_double(nm[3*i+2]));
  int e2 = px->colvars->calc_colvars();
  colvar *cv = (*px->colvars->variables())[0];
  verif_out_double("value", cv->value().real_value);
  colvar::coordnum *c = static_cast<colvar::coordnum *>(cv->cvcs[0].get());
  const char *gn[9] = {"gx0","gy0","gz0","gx1","gy1","gz1","gx2","gy2","gz2"};
  verif_out_double(gn[0], (*c->group1)[0].grad.x); verif_out_double(gn[1], (*c->group1)[0].grad.y); verif_out_double(gn[2], (*c->group1)[0].grad.z);
  for (int i = 0; i < 2; i++) { verif_out_double(gn[3+3*i], (*c->group2)[i].grad.x); verif_out_double(gn[4+3*i], (*c->group2)[i].grad.y); verif_out_double(gn[5+3*i], (*c->group2)[i].grad.z); }
}
