#!/usr/bin/env python3-vt
# Probe: angle gradient == derivative of value on the real code (config text -> real init -> calc_colvars)
import sys, threading, time
sys.setrecursionlimit(100000); threading.stack_size(512*1024*1024)
import z3, spike_io2 as S, rdom as R
def main():
    m=S.Module(sys.argv[1]); I=S.Interp(m); noop=lambda I,a:None
    for n in list(m.funcs)+list(m.decls):
        if n.startswith('_ZNSt8ios_base4Init') or n.startswith('_ZN12colvarmodule3logE'): I.stubs[n]=noop
        if n.startswith('_ZN12colvarmodule5usageC') or n.startswith('_ZN12colvarmodule5usage12cite_feature'): I.stubs[n]=(lambda I,a:0)
    def decide(cond, I=I):
        c=z3.simplify(cond)
        if z3.is_true(c): return 1
        if z3.is_false(c): return 0
        sol=z3.Solver(); sol.set('timeout',2000); sol.add(I.pc+R.gen_constraints())
        sol.push(); sol.add(c); rt=sol.check(); sol.pop()
        sol.push(); sol.add(z3.Not(c)); rf=sol.check(); sol.pop()
        if rt==z3.unsat and rf!=z3.unsat: I.pc.append(z3.Not(c)); return 0
        if rf==z3.unsat and rt!=z3.unsat: I.pc.append(c); return 1
        d=True; I.decisions.append(True); I.pc.append(c); print('  fork (taking true side only in this probe):', str(c)[:90].replace(chr(10),' ')); return 1
    I.decide=decide
    g=m.read(m.globals['llvm.global_ctors'])
    for e in g['init'][2:]:
        try: S.run(I,e[3][1],[])
        except S.Trap as ex: print('ctor trap',ex)
    t0=time.time(); S.run(I,sys.argv[2],[]); print('steps',I.steps,'time',round(time.time()-t0,1))
    print('generators:', {k:str(v[1])[:70].replace(chr(10),' ') for k,v in R.GENS.items()}, 'transcendental:', {k:v[0] for k,v in R.TRANS.items()})
    val=I.outs['value']; nv=int(sys.argv[3])
    names=[c+str(i) for i in range(nv) for c in 'xyz']; gnames=['g'+c+str(i) for i in range(nv) for c in 'xyz']
    sub=[]
    if len(sys.argv)>4 and sys.argv[4]=='slice':
        L1,L3=z3.Reals('L1 L3')
        # p1 (vertex, atom index 1) at origin; p0 = L1*(2,3,6)/7 ; p2 = L3*(1,4,8)/9
        vals={'x1':0,'y1':0,'z1':0}
        sub=[(z3.Real(k),z3.RealVal(v)) for k,v in vals.items()]+[(z3.Real('x0'),L1*z3.Q(2,7)),(z3.Real('y0'),L1*z3.Q(3,7)),(z3.Real('z0'),L1*z3.Q(6,7)),(z3.Real('x2'),L3*z3.Q(1,9)),(z3.Real('y2'),L3*z3.Q(4,9)),(z3.Real('z2'),L3*z3.Q(8,9))]
    f=(lambda t: z3.substitute(t,*sub)) if sub else (lambda t:t)
    tot=0; nq=0
    for vn,gn in zip(names,gnames):
        qs=R.equal_queries(I.outs[gn], val.tan.get(vn,R.RV({})))
        if not qs: print(gn,'identical'); continue
        s=z3.Solver(); s.set('timeout',60000); s.add([f(c) for c in I.pc+R.gen_constraints()]); s.add(z3.Or([f(q)!=0 for q in qs]))
        t0=time.time(); r=s.check(); dt=time.time()-t0; tot+=dt; nq+=1
        print(gn,'== d value/d',vn,':',r,round(dt,2),'s', ('' if r!=z3.sat else str(s.model())[:150]))
    print('queries',nq,'solver time',round(tot,2))
th=threading.Thread(target=main); th.start(); th.join()
