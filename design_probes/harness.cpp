#include "colvarmodule.h"
#include "colvarvalue.h"
#include "colvar.h"
#include "colvarcomp.h"
#include "colvartypes.h"
#include "colvaratoms.h"
#include <string>
template class std::__cxx11::basic_string<char>;
extern "C" double verif_sym_double(const char*);
extern "C" void verif_out_double(const char*, double);

extern "C" void h_quat() {
  cvm::quaternion a(verif_sym_double("a0"),verif_sym_double("a1"),verif_sym_double("a2"),verif_sym_double("a3"));
  cvm::rvector v(verif_sym_double("vx"),verif_sym_double("vy"),verif_sym_double("vz"));
  cvm::rvector r = a.rotate(v);
  verif_out_double("rx", r.x); verif_out_double("n2", r.norm2());
}
extern "C" void h_string() {
  std::string s("Hello"); s += " world, this is a longer string than SSO"; std::string t = s.substr(6, 5);
  verif_out_double("len", (double) s.size()); verif_out_double("find", (double) s.find("world")); verif_out_double("t0", (double) t[0]);
}
extern "C" void h_distance_ctor() {
  colvar::distance *d = new colvar::distance();
  verif_out_double("x", d->value().real_value);
  verif_out_double("nfeat", (double) d->features().size());
}
extern "C" void h_distance_calc_old() {
  colvar::distance *d = new colvar::distance();
  cvm::atom_group *g1 = new cvm::atom_group("group1");
  cvm::atom_group *g2 = new cvm::atom_group("group2");
  verif_out_double("g1size", (double) g1->size());
}
