#!/usr/bin/env python3-vt
# Probe: execute the OpenMP-lowered SMP path of calc_colvars() on logical threads, record access sets, report conflicts
import sys, threading, time
sys.setrecursionlimit(100000); threading.stack_size(512*1024*1024)
import z3, spike_omp as S, rdom as R
def main():
    m=S.Module(sys.argv[1]); I=S.Interp(m); noop=lambda I,a:None
    for n in list(m.funcs)+list(m.decls):
        if n.startswith('_ZNSt8ios_base4Init') or n.startswith('_ZN12colvarmodule3logE'): I.stubs[n]=noop
        if n.startswith('_ZN12colvarmodule5usageC') or n.startswith('_ZN12colvarmodule5usage12cite_feature'): I.stubs[n]=(lambda I,a:0)
    def decide(cond, I=I):
        c=z3.simplify(cond)
        if z3.is_true(c): return 1
        if z3.is_false(c): return 0
        I.pc.append(c); return 1     # probe: non-singular side only
    I.decide=decide
    g=m.read(m.globals['llvm.global_ctors'])
    for e in g['init'][2:]:
        try: S.run(I,e[3][1],[])
        except S.Trap as ex: pass
    t0=time.time()
    try: S.run(I,'h_smp',[])
    except Exception as ex: print('stopped:', type(ex).__name__, str(ex)[:200], [x[:50] for x in I.stack[-5:]])
    print('steps',I.steps,'time',round(time.time()-t0,1),'outs',{k:(str(v.expr())[:60] if isinstance(v,R.RV) else float(v)) for k,v in I.outs.items()})
    for ri,reg in enumerate(I.regions):
        byloc={}
        for (o,off,sz,rw,tid,prot) in reg:
            for b in range(sz): byloc.setdefault((o,off+b),[]).append((rw,tid,prot))
        conflicts={}
        for loc,acc in byloc.items():
            tids={a[1] for a in acc}
            if len(tids)>1 and any(a[0]=='w' for a in acc):
                ws=[a for a in acc if a[0]=='w']
                # conflict unless all accesses protected (atomic/lock)
                if not all(a[2] for a in acc): conflicts.setdefault(loc[0],set()).add(loc[1])
        print('parallel region',ri,': accesses',len(reg),'threads',sorted({a[4] for a in reg}),'conflicting objects',{I.objs[o].name+'#'+str(o):sorted(offs)[:6] for o,offs in conflicts.items()})
th=threading.Thread(target=main); th.start(); th.join()
