#include "colvarmodule.h"
#include "colvartypes.h"
#include "colvarvalue.h"
#include "colvarparse.h"
#include "colvars_memstream.h"
extern "C" void verif_out_double(const char*, double);
extern "C" void verif_sym_bytes(void *p, unsigned long n, const char *name);
#ifndef NBYTES
#define NBYTES 4
#endif
extern "C" void h_readvec() {
  static unsigned char buf[24];
  verif_sym_bytes(buf, 24, "b");
  cvm::memory_stream is(24, buf);
  std::vector<double> w;
  is >> w;
  verif_out_double("ok", bool(is) ? 1.0 : 0.0);
  verif_out_double("n", (double) w.size());
}
extern "C" void h_keylookup() {
  char raw[NBYTES + 1];
  verif_sym_bytes(raw, NBYTES, "c");
  raw[NBYTES] = 0;
  std::string conf(raw, NBYTES);
  colvarparse p;
  std::string data;
  bool found = p.key_lookup(conf, "ab", &data);
  verif_out_double("found", found ? 1.0 : 0.0);
  verif_out_double("dlen", (double) data.size());
}
